#!/bin/bash
# seed_eval.sh <id> [dir]: confirm a seeded change from /tmp/seed_out/<id> and run the property's check against it.
# 1. in a scratch copy: existing tests pass with the patch; demo fails with / passes without the patch
# 2. apply to /repo, run ./check <id>, undo
id=$1; src=${2:-/tmp/seed_out/$id}
export GOFLAGS=-mod=mod GOPROXY=off GOSUMDB=off GOTOOLCHAIN=local
pkg=$(python3 -c "import json;print(json.load(open('$src/meta.json'))['demo_pkg_dir'])")
s=$(mktemp -d /var/tmp/seedchk-XXXXXX)
rsync -a --exclude .git /repo/ $s/
cp $src/zz_seed_demo_test.go $s/$pkg/
(cd $s && go test -vet=off -count=1 -run TestSeedDemo ./$pkg/ >/dev/null 2>&1) && echo "demo passes without change: yes" || echo "demo passes without change: NO"
(cd $s && patch -p1 -s < $src/patch.diff) || { echo "patch does not apply"; rm -rf $s; exit 2; }
(cd $s && go build ./... ) && echo "builds: yes" || echo "builds: NO"
(cd $s && go test -vet=off -count=1 -run TestSeedDemo ./$pkg/ >/dev/null 2>&1) && echo "demo fails with change: NO" || echo "demo fails with change: yes"
rm $s/$pkg/zz_seed_demo_test.go
(cd $s && go test -vet=off -count=1 ./... 2>&1 | grep -v "^ok\|no test files" | head -5; echo "existing suite done")
rm -rf $s
git -C /repo apply $src/patch.diff || { echo "cannot apply to /repo"; exit 2; }
cd /verif && ./bin/govc check -prop $id -no-evidence 2>&1 | grep "^FAILED\|^govc\|^KNOWN" | cut -c1-230 | head -8
git -C /repo apply -R $src/patch.diff
git -C /repo status --short | head -3

; Big-/little-endian fixed-width integers over a byte row (protocol definition:
; network byte order, most significant byte first; RCON uses little-endian).

(define-fun be16 ((a (Array (_ BitVec 64) (_ BitVec 8))) (i (_ BitVec 64))) (_ BitVec 16)
  (concat (select a i) (select a (bvadd i #x0000000000000001))))
(define-fun be32 ((a (Array (_ BitVec 64) (_ BitVec 8))) (i (_ BitVec 64))) (_ BitVec 32)
  (concat (select a i) (select a (bvadd i #x0000000000000001)) (select a (bvadd i #x0000000000000002)) (select a (bvadd i #x0000000000000003))))
(define-fun be64 ((a (Array (_ BitVec 64) (_ BitVec 8))) (i (_ BitVec 64))) (_ BitVec 64)
  (concat (be32 a i) (be32 a (bvadd i #x0000000000000004))))
(define-fun le32 ((a (Array (_ BitVec 64) (_ BitVec 8))) (i (_ BitVec 64))) (_ BitVec 32)
  (concat (select a (bvadd i #x0000000000000003)) (select a (bvadd i #x0000000000000002)) (select a (bvadd i #x0000000000000001)) (select a i)))

; k-th byte (k = 0 is the first byte on the wire) of the big-endian encoding
(define-fun be16_byte ((x (_ BitVec 16)) (k (_ BitVec 64))) (_ BitVec 8)
  ((_ extract 7 0) (bvlshr x (bvmul #x0008 (bvsub #x0001 ((_ extract 15 0) k))))))
(define-fun be32_byte ((x (_ BitVec 32)) (k (_ BitVec 64))) (_ BitVec 8)
  ((_ extract 7 0) (bvlshr x (bvmul #x00000008 (bvsub #x00000003 ((_ extract 31 0) k))))))
(define-fun be64_byte ((x (_ BitVec 64)) (k (_ BitVec 64))) (_ BitVec 8)
  ((_ extract 7 0) (bvlshr x (bvmul #x0000000000000008 (bvsub #x0000000000000007 k)))))
(define-fun le32_byte ((x (_ BitVec 32)) (k (_ BitVec 64))) (_ BitVec 8)
  ((_ extract 7 0) (bvlshr x (bvmul #x00000008 ((_ extract 31 0) k)))))

; 26/12/26-bit packed block position (x: bits 63..38, z: bits 37..12, y: bits 11..0), all signed
(define-fun pos_pack ((x (_ BitVec 64)) (y (_ BitVec 64)) (z (_ BitVec 64))) (_ BitVec 64)
  (bvor (bvshl (bvand x #x0000000003ffffff) #x0000000000000026)
        (bvshl (bvand z #x0000000003ffffff) #x000000000000000c)
        (bvand y #x0000000000000fff)))
(define-fun pos_x ((v (_ BitVec 64))) (_ BitVec 64) (bvashr v #x0000000000000026))
(define-fun pos_y ((v (_ BitVec 64))) (_ BitVec 64) (bvashr (bvshl v #x0000000000000034) #x0000000000000034))
(define-fun pos_z ((v (_ BitVec 64))) (_ BitVec 64) (bvashr (bvshl v #x000000000000001a) #x0000000000000026))

package main

import (
	"fmt"
	"go/types"
	"math/big"

	"golang.org/x/tools/go/ssa"
)

// SV is a symbolic Go value: its Go type and the flat list of scalar SMT
// components that represent it.
//
//	bool                 [Bool]
//	intN/uintN/floatN    [BVn]          (floats are carried as IEEE bit patterns)
//	string               [Ref base, BV64 off, BV64 len]     bytes live in heap H8 (immutable)
//	slice                [Ref base, BV64 off, BV64 len, BV64 cap]
//	pointer, map, func   [Ref, BV64 cellidx]
//	interface            [Tid dyntype, Ref pref, BV64 pidx]  pointer payloads inline, others boxed
//	struct               concatenation of its fields
//	array [N]T (N<=64)   N copies of T's components
type SV struct {
	T types.Type
	C []string
	// Cands: for interface values, the concrete dynamic types this value may
	// have that are known to the translator (others are "opaque").
	Cands []types.Type
	// Exact: the dynamic type is one of Cands (or nil); no opaque alternative.
	Exact bool
	// NonNil: pointer known not to be nil.
	NonNil bool
	// Sub: element values of a tuple (keeps per-element metadata).
	Sub []*SV
	// Fn: statically known function of a func value.
	Fn *ssa.Function
	// Guess: Cands were guessed for a value read from memory (every type boxed so far), not derived from the value's construction.
	Guess bool
	// File: the value is (or was converted from) an interface with a Seek method: Read/Write on it are positional file operations.
	File bool
	// Ext: for a pointer obtained by indexing a slice: one past the last cell index of that slice's
	// capacity (off + cap*elemsize) - every such cell lies inside the pointed-to object.
	Ext string
	// Boxed: payload of an interface value built by MakeInterface in this VC.
	Boxed *SV
	// For values built by contract expressions without a Go type.
	Untyped *big.Int // untyped integer constant
	Sort    Sort     // scalar sort when T == nil
	Signed  bool     // signedness when T == nil
}

const maxArrayValue = 64

type layoutCache map[types.Type][]Sort

var layouts = layoutCache{}

func layout(t types.Type) []Sort {
	if l, ok := layouts[t]; ok {
		return l
	}
	var l []Sort
	switch u := t.Underlying().(type) {
	case *types.Basic:
		switch {
		case u.Info()&types.IsBoolean != 0:
			l = []Sort{SBool}
		case u.Info()&types.IsString != 0:
			l = []Sort{SRef, SBV64, SBV64}
		case u.Kind() == types.UnsafePointer:
			l = []Sort{SRef, SBV64}
		case u.Info()&(types.IsInteger|types.IsFloat) != 0:
			l = []Sort{bvSort(basicBits(u))}
		case u.Kind() == types.UntypedNil:
			l = []Sort{SRef, SBV64}
		default:
			panic(unsupported("basic type " + u.String()))
		}
	case *types.Slice:
		l = []Sort{SRef, SBV64, SBV64, SBV64}
	case *types.Pointer, *types.Map, *types.Signature, *types.Chan:
		l = []Sort{SRef, SBV64}
	case *types.Interface:
		l = []Sort{STid, SRef, SBV64}
	case *types.Struct:
		for i := 0; i < u.NumFields(); i++ {
			l = append(l, layout(u.Field(i).Type())...)
		}
	case *types.Array:
		if u.Len() > 1<<16 {
			panic(unsupported(fmt.Sprintf("array of %d elements", u.Len())))
		}
		el := layout(u.Elem())
		for i := int64(0); i < u.Len(); i++ {
			l = append(l, el...)
		}
	case *types.Tuple:
		for i := 0; i < u.Len(); i++ {
			l = append(l, layout(u.At(i).Type())...)
		}
	default:
		panic(unsupported("type " + t.String()))
	}
	layouts[t] = l
	return l
}

func size(t types.Type) int { return len(layout(t)) }

func basicBits(b *types.Basic) int {
	switch b.Kind() {
	case types.Int8, types.Uint8:
		return 8
	case types.Int16, types.Uint16:
		return 16
	case types.Int32, types.Uint32, types.Float32:
		return 32
	case types.Int, types.Uint, types.Int64, types.Uint64, types.Uintptr, types.Float64, types.UntypedInt, types.UntypedRune:
		return 64
	case types.UntypedFloat:
		return 64
	}
	panic(unsupported("bits of " + b.String()))
}

func isSigned(t types.Type) bool {
	if b, ok := t.Underlying().(*types.Basic); ok {
		return b.Info()&types.IsUnsigned == 0 && b.Info()&types.IsInteger != 0
	}
	return false
}

func isFloat(t types.Type) bool {
	if b, ok := t.Underlying().(*types.Basic); ok {
		return b.Info()&types.IsFloat != 0
	}
	return false
}

func isInteger(t types.Type) bool {
	if b, ok := t.Underlying().(*types.Basic); ok {
		return b.Info()&types.IsInteger != 0
	}
	return false
}

func isBool(t types.Type) bool {
	if b, ok := t.Underlying().(*types.Basic); ok {
		return b.Info()&types.IsBoolean != 0
	}
	return false
}

func isString(t types.Type) bool {
	if b, ok := t.Underlying().(*types.Basic); ok {
		return b.Info()&types.IsString != 0
	}
	return false
}

func isInterface(t types.Type) bool {
	_, ok := t.Underlying().(*types.Interface)
	return ok
}

func isPointerLike(t types.Type) bool {
	switch u := t.Underlying().(type) {
	case *types.Pointer, *types.Map, *types.Signature, *types.Chan:
		return true
	case *types.Basic:
		return u.Kind() == types.UnsafePointer
	}
	return false
}

type unsupportedErr struct{ msg string }

func (u unsupportedErr) Error() string { return "unsupported: " + u.msg }
func unsupported(msg string) unsupportedErr { return unsupportedErr{msg} }

func zeroOf(s Sort) string {
	if s == SBool {
		return "false"
	}
	return bvLit(s.Bits(), 0)
}

func zeroSV(t types.Type) *SV {
	l := layout(t)
	c := make([]string, len(l))
	for i, s := range l {
		c[i] = zeroOf(s)
	}
	return &SV{T: t, C: c}
}

// scalar helpers for contract-level values
func (v *SV) sort() Sort {
	if v.T != nil {
		l := layout(v.T)
		if len(l) != 1 {
			panic(unsupported("not a scalar: " + v.T.String()))
		}
		return l[0]
	}
	return v.Sort
}

func (v *SV) isScalar() bool {
	if v.Untyped != nil {
		return true
	}
	if v.T != nil {
		return len(layout(v.T)) == 1
	}
	return len(v.C) == 1
}

func (v *SV) signed() bool {
	if v.T != nil {
		return isSigned(v.T)
	}
	return v.Signed
}

func (v *SV) term() string {
	if len(v.C) != 1 {
		panic(fmt.Sprintf("term() of non-scalar %v (%d comps)", v.T, len(v.C)))
	}
	return v.C[0]
}

func ghostBV(bits int, signed bool, term string) *SV {
	return &SV{Sort: bvSort(bits), Signed: signed, C: []string{term}}
}
func ghostBool(term string) *SV   { return &SV{Sort: SBool, C: []string{term}} }
func ghostRef(term string) *SV    { return &SV{Sort: SRef, C: []string{term}} }
func untyped(v *big.Int) *SV      { return &SV{Untyped: v} }
func untypedInt(v int64) *SV      { return &SV{Untyped: big.NewInt(v)} }

package main

import (
	"fmt"
	"go/types"
	"os"
	"strings"

	"golang.org/x/tools/go/ssa"
)

func shortPkg(p string) string {
	p = strings.TrimPrefix(p, modulePath+"/")
	if k := strings.LastIndex(p, "/"); k >= 0 {
		return p[k+1:]
	}
	return p
}

func (e *Engine) newVC(name string) *VC {
	return &VC{eng: e, Name: name, counts: map[string]int{}, Assumed: map[string]bool{}, consts: map[string]string{}}
}

const splitElse = int64(-1) << 62 // marks the 'else' case of a split

// verifyFunc generates the VCs of fn against its contract fc (one per split case).
func (e *Engine) verifyFunc(fn *ssa.Function, fc *FuncContract) (vcs []*VC, err error) {
	base := shortPkg(fc.Pkg) + "." + fc.Key
	if len(fn.TypeArgs()) > 0 {
		base = shortPkg(fc.Pkg) + "." + instanceKey(fn)
	}
	type splitCase struct {
		name string
		vals []int64
	}
	cases := []splitCase{{"", nil}}
	for _, sp := range fc.Splits {
		var next []splitCase
		for _, c := range cases {
			for v := sp.Lo; v <= sp.Hi; v++ {
				next = append(next, splitCase{fmt.Sprintf("%s#%s=%d", c.name, strings.ReplaceAll(sp.Text, " ", ""), v), append(append([]int64{}, c.vals...), v)})
			}
			if sp.Else {
				// the remaining values, as one case (splitElse marks it)
				next = append(next, splitCase{fmt.Sprintf("%s#%s=else", c.name, strings.ReplaceAll(sp.Text, " ", "")), append(append([]int64{}, c.vals...), splitElse)})
			}
		}
		cases = next
	}
	if len(fc.Splits) > 0 {
		// the case split must be exhaustive: the preconditions imply lo <= E <= hi
		vc := e.newVC(base + "#split")
		vc.Contract = fc
		vc.exhaustOnly = true
		vc.decisions, vc.valDecisions = map[string]bool{}, map[string]int64{}
		if err := e.runVC(vc, fn, fc, nil); err != nil {
			return nil, fmt.Errorf("%s: %v", vc.Name, err)
		}
		if len(vc.obls) > 0 {
			vcs = append(vcs, vc)
		} else {
			delete(e.used, vc)
		}
	}
	for _, c := range cases {
		// opaque predicates met during execution are decided by further splitting
		type dcase struct {
			dec  map[string]bool
			vdec map[string]int64
			name string
		}
		queue := []dcase{{map[string]bool{}, map[string]int64{}, ""}}
		for len(queue) > 0 {
			dc := queue[0]
			queue = queue[1:]
			vc := e.newVC(base + c.name + dc.name)
			vc.Contract = fc
			vc.decisions = dc.dec
			vc.valDecisions = dc.vdec
			err := e.runVC(vc, fn, fc, c.vals)
			if nd, ok := err.(needDecision); ok && nd.values != nil {
				for _, v := range nd.values {
					m := map[string]int64{}
					for k, x := range dc.vdec {
						m[k] = x
					}
					m[nd.key] = v
					queue = append(queue, dcase{dc.dec, m, fmt.Sprintf("%s#%s=%d", dc.name, strings.ReplaceAll(nd.key, " ", ""), v)})
				}
				delete(e.used, vc)
				continue
			}
			if nd, ok := err.(needDecision); ok {
				if len(dc.dec) >= 6 {
					return nil, fmt.Errorf("%s: too many opaque dispatch decisions", vc.Name)
				}
				for _, b := range []bool{true, false} {
					m := map[string]bool{}
					for k, v := range dc.dec {
						m[k] = v
					}
					m[nd.key] = b
					short := nd.key[strings.LastIndex(nd.key, ".")+1:]
					queue = append(queue, dcase{m, dc.vdec, fmt.Sprintf("%s#%s=%v", dc.name, short, b)})
				}
				delete(e.used, vc)
				continue
			}
			if err != nil {
				return nil, fmt.Errorf("%s: %v", vc.Name, err)
			}
			vcs = append(vcs, vc)
		}
	}
	return vcs, nil
}

func (e *Engine) runVC(vc *VC, fn *ssa.Function, fc *FuncContract, splitVals []int64) (err error) {
	defer func() {
		if r := recover(); r != nil {
			switch x := r.(type) {
			case unsupportedErr:
				err = x
			case evalErr:
				err = x
			case needDecision:
				err = x
			default:
				panic(r)
			}
		}
	}()
	if fn.Blocks == nil {
		return fmt.Errorf("function %s has no body", fn)
	}
	st := vc.freshState("in")
	vc.entryH8 = st.H["H8"]
	vc.assume(and(app("bvugt", st.H["next"], bvLit(refBits, 0x10000)), app("bvult", st.H["next"], bvLit(refBits, 1<<29))))
	// streams and sinks have not failed before the call
	vc.note("standing: no stream or sink has failed before the call (sticky failure flags start false)")
	vc.note("standing: stream positions, lengths and offsets are below 2^40; fewer than 2^29 objects exist")
	vc.entry = st.clone()

	var params []*SV
	names := fc.Params
	if fc.Recv != "" {
		names = append([]string{fc.Recv}, names...)
	}
	for i, p := range fn.Params {
		sv := vc.freshSV(p.Type(), "p_"+p.Name(), st)
		switch p.Type().Underlying().(type) {
		case *types.Pointer:
			sv.NonNil = true
			vc.assume(not(eq(sv.C[0], bvLit(refBits, 0))))
			// pointer parameters point at the start of their object (behaviour is
			// uniform in the cell offset, so this loses no generality)
			sv.C[1] = bvLit(64, 0)
		case *types.Interface:
			if hasMethod(p.Type(), "Seek") {
				sv.File = true
			}
			if !fc.mayNil(nameAt(names, i)) {
				// a non-nil interface parameter holds an object (not a typed nil pointer)
				vc.assume(and(not(eq(sv.C[0], bvLit(tidBits, 0))), not(eq(sv.C[1], bvLit(refBits, 0)))))
			}
		}
		params = append(params, sv)
	}
	vc.note("standing: pointer receivers/parameters and interface parameters of a verified function are non-nil; distinct pointer, slice and interface parameters refer to distinct objects unless the contract says mayalias")
	// separation + symbolic refs are not globals
	var refs []string
	var refNames []string
	for i, sv := range params {
		l := layout(sv.T)
		for j, s := range l {
			if s == SRef {
				vc.assume(or(eq(sv.C[j], bvLit(refBits, 0)), app("bvuge", sv.C[j], bvLit(refBits, 0x10000))))
			}
		}
		switch sv.T.Underlying().(type) {
		case *types.Pointer, *types.Slice, *types.Map:
			refs = append(refs, sv.C[0])
			refNames = append(refNames, nameAt(names, i))
		case *types.Interface:
			refs = append(refs, sv.C[1])
			refNames = append(refNames, nameAt(names, i))
		case *types.Basic:
			if isString(sv.T) {
				refs = append(refs, sv.C[0])
				refNames = append(refNames, nameAt(names, i))
			}
		}
	}
	for i := range refs {
		for j := i + 1; j < len(refs); j++ {
			if fc.mayAlias(refNames[i], refNames[j]) {
				continue
			}
			vc.assume(or(not(eq(refs[i], refs[j])), eq(refs[i], bvLit(refBits, 0))))
		}
	}
	env := vc.bindEnv(fc, fn, params, nil, st, st)
	type exh struct {
		t, text string
		bits    int
		signed  bool
		lo, hi  int64
	}
	var exhs []exh
	for i, sp := range fc.Splits {
		v := env.eval(sp.E)
		if vc.exhaustOnly {
			if !(v.Untyped == nil && v.sort() == SBool) && !sp.Else {
				exhs = append(exhs, exh{v.term(), sp.Text, v.sort().Bits(), v.signed(), sp.Lo, sp.Hi})
			}
			continue
		}
		if v.Untyped == nil && v.sort() == SBool {
			// boolean case split: 1 = holds, 0 = does not hold
			if splitVals[i] != 0 {
				vc.assume(v.term())
			} else {
				vc.assume(not(v.term()))
			}
			if strings.HasPrefix(v.term(), "(select (select ") {
				vc.consts[v.term()] = map[bool]string{true: "true", false: "false"}[splitVals[i] != 0]
			}
			continue
		}
		if splitVals[i] == splitElse {
			le, ge := "bvsle", "bvsge"
			if !v.signed() {
				le, ge = "bvule", "bvuge"
			}
			vc.assume(not(and(app(ge, v.term(), bvLit(v.sort().Bits(), sp.Lo)), app(le, v.term(), bvLit(v.sort().Bits(), sp.Hi)))))
			continue
		}
		lit := bvLit(v.sort().Bits(), splitVals[i])
		if id, isId := sp.E.(Ident); isId {
			// a scalar parameter: the case value replaces it, so that branches on it fold away
			for pi, pn := range names {
				if pn == id.Name && pi < len(params) && len(params[pi].C) == 1 && params[pi].C[0] == v.term() {
					params[pi].C[0] = lit
				}
			}
		}
		vc.assume(eq(v.term(), lit))
		if strings.HasPrefix(v.term(), "(select (select ") {
			vc.consts[v.term()] = lit
		}
	}
	for _, r := range fc.Requires {
		env.assumeClause("true", r.E)
	}
	for _, r := range fc.Requires {
		// (after assuming them unsimplified) learn  location == constant  facts
		env.learnConsts(r.E)
	}
	if len(fc.Stable) > 0 {
		for _, t := range vc.evalModClauses(fc.Stable, env) {
			if t.kind != "cells" {
				return fmt.Errorf("stable: only plain locations are supported (%s)", t.what)
			}
			vc.stable = append(vc.stable, t)
		}
		vc.note("assumed (stable): calls of unknown effect do not change " + fmt.Sprint(len(vc.stable)) + " declared cells of " + fc.Key)
	}
	if vc.exhaustOnly {
		for _, x := range exhs {
			le, ge := "bvsle", "bvsge"
			if !x.signed {
				le, ge = "bvule", "bvuge"
			}
			vc.oblige("split-exhaustive", fmt.Sprintf("case split of %s: the preconditions imply %d <= %s <= %d", fc.Key, x.lo, x.text, x.hi), "true",
				and(app(ge, x.t, bvLit(x.bits, x.lo)), app(le, x.t, bvLit(x.bits, x.hi))), "@split")
		}
		return nil
	}
	vc.cover("cover-entry", "preconditions of "+fc.Key+" are satisfiable", "true")
	for _, h := range fc.Hints {
		v := env.eval(h.E)
		if vc.hints == nil {
			vc.hints = map[string][]string{}
		}
		if v.Untyped != nil {
			// a constant serves quantifiers of either width
			vc.hints[h.Name] = append(vc.hints[h.Name], bvLitBig(64, v.Untyped), bvLitBig(32, v.Untyped))
		} else {
			vc.hints[h.Name] = append(vc.hints[h.Name], vc.defS(v.sort(), v.term(), "hint_"+h.Name))
		}
	}
	if fc.Guard != nil {
		ge := *env
		ge.st, ge.old = st.clone(), st.clone()
		vc.guardEnv = &ge
	}

	if traceOn {
		fmt.Fprintln(os.Stderr, "runVC: building graph of", fn.String())
	}
	g, err := buildGraph(fn, fc.Loops)
	if err != nil {
		return err
	}
	if traceOn {
		fmt.Fprintln(os.Stderr, "runVC: graph built,", len(g.Order), "nodes")
	}
	f := &Frame{vc: vc, fn: fn, g: g, fc: fc, params: params,
		vals: map[ssa.Value]map[string]*SV{}, memo: map[ssa.Value]map[*Node]*SV{}, path: fn.Name()}
	if fc.Panics != nil {
		f.panicsC = vc.def("Bool", env.evalBool(fc.Panics.E), "panicsC")
	}
	vc.replay = vc.makeReplay(fc, fn, params, st)
	entry := st.clone()
	vc.exec(f, "true", st)

	if len(f.rets) == 0 {
		vc.cover("cover-return", fc.Key+" can return normally", "false")
		return nil
	}
	var edges []*Edge
	var conds []string
	for _, r := range f.rets {
		edges = append(edges, &Edge{Cond: r.cond, St: r.st})
		conds = append(conds, r.cond)
	}
	retReach := vc.def("Bool", or(conds...), "returns")
	final := vc.mergeStates(edges)
	var results []*SV
	for i := 0; i < fn.Signature.Results().Len(); i++ {
		var vs []*SV
		for _, r := range f.rets {
			vs = append(vs, r.vals[i])
		}
		results = append(results, mergeSVs(vc, conds, vs))
	}
	vc.cover("cover-return", fc.Key+" can return normally", retReach)
	post := vc.bindEnv(fc, fn, params, results, final, entry)
	if vc.replay != nil {
		vc.replay.addResults(fc, results, final)
	}
	if fc.Panics != nil && !fc.PanicsOnly {
		vc.oblige("panics-complete", "normal return although the 'panics when' condition held: "+fc.Panics.Text, retReach, not(f.panicsC), "@panics")
	}
	type retCase struct {
		reach   string
		st      *State
		results []*SV
		suffix  string
	}
	cases := []retCase{{retReach, final, results, ""}}
	if fc.PerReturn && len(f.rets) > 1 {
		// postconditions and frame are checked at every return separately (no merged final state)
		cases = nil
		for k, r := range f.rets {
			cases = append(cases, retCase{r.cond, r.st, r.vals, fmt.Sprintf("@ret%d", k)})
		}
	}
	// frame first: evaluating the postconditions may add (division) facts that the frame goals do not need
	if fc.HasMod {
		targets := vc.evalModifies(fc, env)
		for _, rc := range cases {
			goals := vc.frameGoals(entry, rc.st, targets)
			for _, h := range stateKeys {
				if g, ok := goals[h]; ok {
					o := vc.obligeNoAssume("frame", fmt.Sprintf("%s modifies %s outside its modifies clause", fc.Key, h), rc.reach, g, "@frame")
					if o != nil {
						o.Name = fmt.Sprintf("%s::frame[%s]%s", vc.Name, h, rc.suffix)
					}
				}
			}
		}
	}
	for i, c := range fc.Ensures {
		kind := "ensures"
		// a conjunction (also one hidden in macros) is proved conjunct by conjunct
		var parts []Expr
		for _, cj := range post.conjuncts(c.E, 0) {
			parts = append(parts, splitConst(cj)...)
		}
		for _, rc := range cases {
			cpost := post
			if rc.suffix != "" {
				cpost = vc.bindEnv(fc, fn, params, rc.results, rc.st, entry)
			}
			for pi, pe := range parts {
				// facts and definitions produced while evaluating one postcondition stay local to its
				// obligation (they would otherwise weigh on every later query of this function)
				sn := vc.snapshot()
				o := vc.obligeNoAssume(kind, fmt.Sprintf("postcondition %d of %s: %s", i, fc.Key, c.Text), rc.reach, cpost.evalGoal(pe), c.Tags...)
				vc.restore(sn, o)
				if o != nil {
					o.Name = fmt.Sprintf("%s::ensures[%d]", vc.Name, i)
					if c.Label != "" {
						o.Name = fmt.Sprintf("%s::ensures[%s]", vc.Name, c.Label)
					}
					if len(parts) > 1 {
						o.Name += fmt.Sprintf(".%d", pi)
					}
					o.Name += rc.suffix
				}
			}
		}
		// success-path cover for clauses guarded by err == nil
		if b, ok := c.E.(Binary); ok && b.Op == "==>" {
			vc.cover("cover-ensures", fmt.Sprintf("antecedent of postcondition %d of %s is reachable: %s", i, fc.Key, exprString(b.X)), and(retReach, post.evalBool(b.X)))
		}
	}
	return nil
}

func nameAt(names []string, i int) string {
	if i < len(names) {
		return names[i]
	}
	return fmt.Sprintf("#%d", i)
}

func (fc *FuncContract) mayNil(name string) bool {
	for _, m := range fc.MayAlias {
		if m[0] == "nil" && m[1] == name {
			return true
		}
	}
	return false
}

type vcSnap struct {
	lines  int
	hyps   int
	scaled map[int][]string
	consts map[string]string
	used   map[string]bool
}

func (vc *VC) snapshot() *vcSnap {
	if vc.skR == "" {
		// declared outside any scoped region
		vc.skR = vc.freshS(SRef, "sk_r")
		vc.skI = vc.freshS(SBV64, "sk_i")
	}
	sn := &vcSnap{lines: len(vc.lines), hyps: len(vc.hyps), scaled: map[int][]string{}, consts: map[string]string{}, used: map[string]bool{}}
	for k, v := range vc.scaled {
		sn.scaled[k] = append([]string{}, v...)
	}
	for k, v := range vc.consts {
		sn.consts[k] = v
	}
	for k, v := range vc.eng.used[vc] {
		sn.used[k] = v
	}
	return sn
}

// restore drops everything emitted since the snapshot from the VC's running context and attaches
// it to obligation o (which was created after the snapshot) instead.
func (vc *VC) restore(sn *vcSnap, o *Obligation) {
	if len(vc.lines) > sn.lines {
		local := append([]string{}, vc.lines[sn.lines:]...)
		vc.lines = vc.lines[:sn.lines]
		if o != nil {
			o.Prefix = sn.lines
			o.Extra = append(local, o.Extra...)
		}
	}
	if len(vc.hyps) > sn.hyps {
		vc.hyps = vc.hyps[:sn.hyps]
	}
	vc.scaled, vc.consts = sn.scaled, sn.consts
	// header-level declarations (uninterpreted functions, spec functions) stay declared
	cur := vc.eng.used[vc]
	for k := range cur {
		if !sn.used[k] && !strings.HasPrefix(k, "uf:") && !strings.HasPrefix(k, "spec:") && !strings.HasPrefix(k, "fn:") && !strings.HasPrefix(k, "ufax:") {
			delete(cur, k)
		}
	}
}

// obligeNoAssume records an obligation without assuming it afterwards (used
// for postconditions, which are independent of each other).
func (vc *VC) obligeNoAssume(kind, note, reach, goal string, tags ...string) *Obligation {
	full := implies(reach, goal)
	extra := vc.instantiateFor(full)
	vc.goalHints = nil
	idx := vc.counts[kind]
	vc.counts[kind]++
	o := &Obligation{
		Name: fmt.Sprintf("%s::%s[%d]", vc.Name, kind, idx), Kind: kind, Goal: full, Prefix: len(vc.lines),
		Tags: tags, Note: note, VC: vc, Bounded: vc.Bounded, Replay: vc.replay, Extra: extra,
	}
	vc.obls = append(vc.obls, o)
	return o
}

// verifyLemma turns a lemma into a single obligation over fresh constants.
func (e *Engine) verifyLemma(lm *Lemma) (vc *VC, err error) {
	vc = e.newVC("lemma " + lm.Name)
	defer func() {
		if r := recover(); r != nil {
			if x, ok := r.(evalErr); ok {
				err = x
				return
			}
			panic(r)
		}
	}()
	st := vc.freshState("in")
	env := &Env{vc: vc, names: map[string]*SV{}, lets: map[string]Expr{}, st: st, old: st, what: "lemma " + lm.Name, pkgPath: lm.Pkg}
	for _, p := range lm.Params {
		var sv *SV
		switch p.Sort {
		case "bool":
			sv = ghostBool(vc.freshS(SBool, p.Name))
		case "row":
			sv = &SV{Sort: sRowBytes, C: []string{vc.fresh(rowSort(SBV8), p.Name)}}
		case "ref":
			sv = ghostRef(vc.freshS(SRef, p.Name))
		default:
			var bits int
			signed := false
			switch {
			case strings.HasPrefix(p.Sort, "i"):
				signed = true
				fmt.Sscanf(p.Sort[1:], "%d", &bits)
			case strings.HasPrefix(p.Sort, "u"):
				fmt.Sscanf(p.Sort[1:], "%d", &bits)
			case strings.HasPrefix(p.Sort, "bv"):
				fmt.Sscanf(p.Sort[2:], "%d", &bits)
			}
			if bits == 0 {
				return nil, fmt.Errorf("lemma %s: bad parameter sort %q", lm.Name, p.Sort)
			}
			sv = ghostBV(bits, signed, vc.freshS(bvSort(bits), p.Name))
		}
		env.names[p.Name] = sv
	}
	o := vc.obligeNoAssume("lemma", "lemma "+lm.Name+": "+lm.Body.Text, "true", env.evalGoal(lm.Body.E), lm.Tags...)
	o.Name = "lemma " + lm.Name
	// vacuity: the antecedent of an implication lemma must be satisfiable
	if b, ok := lm.Body.E.(Binary); ok && b.Op == "==>" {
		vc.cover("cover-lemma", "antecedent of lemma "+lm.Name+" is satisfiable", env.evalBool(b.X))
	}
	return vc, nil
}

// obligeNoAssumeKind: like oblige but without assuming the goal afterwards (the path ends here).
func (vc *VC) obligeNoAssumeKind(kind, note, reach, goal string, tags ...string) *Obligation {
	full := implies(reach, goal)
	if full == "true" {
		return nil
	}
	return vc.obligeNoAssume(kind, note, reach, goal, tags...)
}

package main

import (
	"fmt"
	"go/types"
	"math/big"
	"os"
	"sort"
	"strings"

	"golang.org/x/tools/go/ssa"
)

// Env is the environment in which a contract expression is evaluated.
type Env struct {
	loopNext string // allocation counter when the current loop was entered (loop invariants only)
	vc    *VC
	names map[string]*SV
	lets  map[string]Expr
	st    *State // current state
	old   *State // state at function entry / before the call
	pkg   *types.Package
	pkgPath string
	lookup func(name string) *SV // resolves source-level local variable names (loop invariants)
	dropQ bool   // hypothesis-position universal quantifiers evaluate to true (their instances are added per obligation)
	inst  string // when set: hypothesis-position universal quantifiers are instantiated at this term
	instMap map[string]string // variable name -> term: hypothesis-position quantifiers binding these names are instantiated
	pol   int // +1: evaluating a proof goal positively, -1: negatively, 0: assumption / unknown
	what  string
}

type evalErr struct{ msg string }

func (e evalErr) Error() string { return e.msg }

func (env *Env) fail(format string, a ...interface{}) {
	panic(evalErr{fmt.Sprintf("CONTRACT-STALE: %s: ", env.what) + fmt.Sprintf(format, a...)})
}

func (env *Env) with(name string, v *SV) *Env {
	n := *env
	n.names = map[string]*SV{}
	for k, x := range env.names {
		n.names[k] = x
	}
	n.names[name] = v
	return &n
}

func (env *Env) withPol(p int) *Env {
	if env.pol == p {
		return env
	}
	n := *env
	n.pol = p
	return &n
}

// evalGoal evaluates a boolean expression that is about to be proved:
// universally quantified sub-formulas in positive position are skolemised.
func (env *Env) evalGoal(e Expr) string { return env.withPol(1).evalBool(e) }

func (env *Env) inOld() *Env {
	n := *env
	n.st = env.old
	return &n
}

func (env *Env) evalBool(e Expr) string {
	v := env.eval(e)
	if v.Untyped != nil || len(v.C) != 1 || v.sort() != SBool {
		env.fail("expression %s is not boolean", exprString(e))
	}
	return v.C[0]
}

var castTypes = map[string]*types.Basic{
	"int": types.Typ[types.Int], "int8": types.Typ[types.Int8], "int16": types.Typ[types.Int16], "int32": types.Typ[types.Int32], "int64": types.Typ[types.Int64],
	"uint": types.Typ[types.Uint], "uint8": types.Typ[types.Uint8], "byte": types.Typ[types.Uint8], "uint16": types.Typ[types.Uint16], "uint32": types.Typ[types.Uint32], "uint64": types.Typ[types.Uint64],
}

func (env *Env) eval(e Expr) *SV {
	vc := env.vc
	switch e := e.(type) {
	case Num:
		return untyped(e.V)
	case Ident:
		if v, ok := env.names[e.Name]; ok {
			return v
		}
		if le, ok := env.lets[e.Name]; ok {
			return env.eval(le)
		}
		if env.lookup != nil {
			if v := env.lookup(e.Name); v != nil {
				return v
			}
		}
		switch e.Name {
		case "true":
			return ghostBool("true")
		case "false":
			return ghostBool("false")
		case "nil":
			return &SV{C: []string{bvLit(tidBits, 0)}, Exact: true, Sort: STid}
		}
		if env.pkg != nil {
			if obj, ok := env.pkg.Scope().Lookup(e.Name).(*types.Var); ok {
				if sp := vc.eng.pkgs[env.pkg.Path()]; sp != nil {
					if g, ok := sp.Members[e.Name].(*ssa.Global); ok {
						if obj.Type().String() == "error" {
							// package-level error values never change: read the entry value
							return vc.loadPure(vc.entryOr(env.st), vc.globalPtr(g), obj.Type())
						}
						return vc.loadPure(env.st, vc.globalPtr(g), obj.Type())
					}
				}
			}
		}
		if sf, ok := vc.eng.spec.funcs[e.Name]; ok && len(sf.args) == 0 {
			vc.eng.useSpec(vc, e.Name)
			return &SV{Sort: sf.res, Signed: sf.res != SBV8, C: []string{e.Name}}
		}
		env.fail("unknown identifier %q", e.Name)
	case Unary:
		switch e.Op {
		case "!":
			return ghostBool(not(env.withPol(-env.pol).evalBool(e.X)))
		case "-":
			x := env.eval(e.X)
			if x.Untyped != nil {
				return untyped(new(big.Int).Neg(x.Untyped))
			}
			return &SV{Sort: x.sort(), Signed: x.signed(), C: []string{app("bvneg", x.term())}}
		case "^":
			x := env.eval(e.X)
			return &SV{Sort: x.sort(), Signed: x.signed(), C: []string{app("bvnot", x.term())}}
		case "*":
			p := env.eval(e.X)
			pt, ok := p.T.Underlying().(*types.Pointer)
			if !ok {
				env.fail("dereference of non-pointer %s", exprString(e.X))
			}
			return vc.loadPure(env.st, p, pt.Elem())
		}
	case Binary:
		return env.evalBinary(e)
	case IndexE:
		if a, t, ok := env.evalAddr(e); ok && size(t) <= 64 {
			return vc.loadPure(env.st, a, t)
		}
		if xv, ok := env.tryMapIndex(e); ok {
			return xv
		}
		x := env.eval(e.X)
		i := env.toBV64(env.eval(e.I))
		if x.T == nil {
			env.fail("index of untyped value %s", exprString(e.X))
		}
		switch u := x.T.Underlying().(type) {
		case *types.Slice:
			es := size(u.Elem())
			return vc.loadPure(env.st, &SV{C: []string{x.C[0], app("bvadd", x.C[1], vc.scaleReg(i, es))}}, u.Elem())
		case *types.Basic:
			if u.Info()&types.IsString != 0 {
				return &SV{T: types.Typ[types.Uint8], C: []string{sel2(env.st.H["H8"], x.C[0], app("bvadd", x.C[1], i))}}
			}
		case *types.Pointer:
			if arr, ok := u.Elem().Underlying().(*types.Array); ok {
				es := size(arr.Elem())
				return vc.loadPure(env.st, &SV{C: []string{x.C[0], app("bvadd", x.C[1], vc.scaleReg(i, es))}}, arr.Elem())
			}
		case *types.Array:
			es := size(u.Elem())
			if lit, ok := env.eval(e.I).constInt(); ok {
				return &SV{T: u.Elem(), C: x.C[int(lit)*es : int(lit+1)*es]}
			}
			// symbolic index: ite chain over scalar elements
			if es == 1 {
				t := x.C[len(x.C)-1]
				for k := len(x.C) - 2; k >= 0; k-- {
					t = ite(eq(i, bvLit(64, int64(k))), x.C[k], t)
				}
				return &SV{T: u.Elem(), C: []string{t}}
			}
		}
		env.fail("cannot index %s", exprString(e.X))
	case FieldE:
		// pkg.Var: a package-level variable of an imported package
		if id, isId := e.X.(Ident); isId && env.pkg != nil {
			if _, local := env.names[id.Name]; !local {
				for _, imp := range env.pkg.Imports() {
					if imp.Name() == id.Name {
						if obj, ok := imp.Scope().Lookup(e.Name).(*types.Var); ok {
							vc.eng.ensureBuiltPkg(imp.Path())
							if sp := vc.eng.pkgs[imp.Path()]; sp != nil {
								if g, ok := sp.Members[e.Name].(*ssa.Global); ok {
									return vc.loadPure(vc.entryOr(env.st), vc.globalPtr(g), obj.Type())
								}
							}
						}
					}
				}
			}
		}
		if a, t, ok := env.evalAddr(e); ok && size(t) <= 64 {
			return vc.loadPure(env.st, a, t)
		}
		x := env.eval(e.X)
		if x.T == nil {
			env.fail("field of untyped value %s", exprString(e.X))
		}
		t := x.T
		isPtr := false
		if p, ok := t.Underlying().(*types.Pointer); ok {
			t = p.Elem()
			isPtr = true
		}
		stt, ok := t.Underlying().(*types.Struct)
		if !ok {
			env.fail("%s is not a struct", exprString(e.X))
		}
		off := 0
		for i := 0; i < stt.NumFields(); i++ {
			ft := stt.Field(i).Type()
			if stt.Field(i).Name() == e.Name {
				if isPtr {
					return vc.loadPure(env.st, &SV{C: []string{x.C[0], cellIdx(x.C[1], off)}}, ft)
				}
				return &SV{T: ft, C: x.C[off : off+size(ft)]}
			}
			off += size(ft)
		}
		env.fail("no field %s in %s", e.Name, t)
	case CallE:
		return env.evalCall(e)
	case StrLit:
		env.fail("string literal not allowed here")
	}
	env.fail("cannot evaluate %s", exprString(e))
	return nil
}

func (v *SV) constInt() (int64, bool) {
	if v.Untyped != nil && v.Untyped.IsInt64() {
		return v.Untyped.Int64(), true
	}
	return 0, false
}

// loadPure reads a value from the heap without emitting definitions that
// constrain anything (used in specifications).
func (vc *VC) loadPure(st *State, addr *SV, t types.Type) *SV {
	l := layout(t)
	v := &SV{T: t, C: make([]string, len(l))}
	for i, s := range l {
		v.C[i] = vc.readCell(st.H[s.heap()], addr.C[0], cellIdx(addr.C[1], i))
	}
	return v
}

// known replaces a term by the literal it is known to equal (from a split or a
// requires conjunct of the form  location == constant).
func (vc *VC) known(t string) string {
	if c, ok := vc.consts[t]; ok {
		return c
	}
	return t
}

// readCell builds the term for cell (ref, idx) of heap h. When idx is a literal it looks
// through stores to the same object at other literal cells (store forwarding), so that a
// field that was not written keeps the term - and the known constant - it had before.
func (vc *VC) readCell(h, ref, idx string) string {
	if _, _, lit := litVal(idx); !lit {
		return vc.known(sel2(h, ref, idx))
	}
	cur := h
	for depth := 0; depth < 64; depth++ {
		def, ok := vc.defOf[cur]
		if !ok || !strings.HasPrefix(def, "(store ") {
			break
		}
		sx := parseSexpSafe(def)
		if sx == nil || len(sx.list) != 4 {
			break
		}
		base, r, row := sx.list[1].String(), sx.list[2].String(), sx.list[3]
		if r != ref {
			// a different reference term: it may or may not alias; only provably distinct
			// fresh allocations are skipped
			if vc.allocRefs[r] && vc.allocRefs[ref] {
				cur = base
				continue
			}
			break
		}
		// same object: the row must be (store (select base r) I V) with literal I
		if row.list == nil || len(row.list) != 4 || row.list[0].atom != "store" {
			break
		}
		inner := row.list[1].String()
		if inner != sel(base, r) {
			break
		}
		i := row.list[2].String()
		if _, _, ilit := litVal(i); !ilit {
			break
		}
		if i == idx {
			return row.list[3].String()
		}
		cur = base
	}
	return vc.known(sel2(cur, ref, idx))
}

func parseSexpSafe(s string) (x *sexp) {
	defer func() {
		if recover() != nil {
			x = nil
		}
	}()
	return parseSexp(s)
}

// learnConsts records  location == literal  facts among the conjuncts of e.
func (env *Env) learnConsts(e Expr) {
	switch x := e.(type) {
	case Binary:
		switch x.Op {
		case "&&":
			env.learnConsts(x.X)
			env.learnConsts(x.Y)
		case "==":
			func() {
				defer func() { recover() }()
				a, b := env.eval(x.X), env.eval(x.Y)
				if (a.Untyped == nil && len(a.C) != 1) || (b.Untyped == nil && len(b.C) != 1) || (a.Untyped != nil && b.Untyped != nil) {
					return
				}
				ta, tb, _, _ := env.coerce(a, b, x)
				_, _, la := litVal(ta)
				_, _, lb := litVal(tb)
				if la && !lb && strings.HasPrefix(tb, "(select (select ") {
					env.vc.consts[tb] = ta
				}
				if lb && !la && strings.HasPrefix(ta, "(select (select ") {
					env.vc.consts[ta] = tb
				}
			}()
		}
	case CallE:
		if env.pkg != nil && env.pkgPath == "" {
			env.pkgPath = env.pkg.Path()
		}
		if m, ok := env.vc.eng.contracts.Macros[env.pkgPath+"::"+x.Fn]; ok && len(m.Params) == len(x.Args) {
			menv := *env
			menv.names = map[string]*SV{}
			menv.lets = map[string]Expr{}
			for i, p := range m.Params {
				menv.names[p] = env.eval(x.Args[i])
			}
			menv.learnConsts(m.E)
		}
	}
}

func (env *Env) toBV64(v *SV) string {
	if v.Untyped != nil {
		return bvLitBig(64, v.Untyped)
	}
	s := v.sort()
	if s == SBool {
		env.fail("boolean used as integer")
	}
	return resize(v.term(), s.Bits(), 64, v.signed())
}

// coerce makes the two operands the same sort, adapting untyped constants.
func (env *Env) coerce(a, b *SV, e Expr) (string, string, Sort, bool) {
	switch {
	case a.Untyped != nil && b.Untyped != nil:
		env.fail("internal: constant folding expected for %s", exprString(e))
	case a.Untyped != nil:
		s := b.sort()
		return bvLitBig(s.Bits(), a.Untyped), b.term(), s, b.signed()
	case b.Untyped != nil:
		s := a.sort()
		return a.term(), bvLitBig(s.Bits(), b.Untyped), s, a.signed()
	}
	sa, sb := a.sort(), b.sort()
	if sa != sb {
		if sa.Bits() == sb.Bits() && sa.Bits() > 0 {
			return a.term(), b.term(), sa, a.signed() && b.signed()
		}
		env.fail("operand sorts differ in %s: %s vs %s (add a cast)", exprString(e), sa, sb)
	}
	return a.term(), b.term(), sa, a.signed() && b.signed()
}

func (env *Env) evalBinary(e Binary) *SV {
	switch e.Op {
	case "&&":
		return ghostBool(and(env.evalBool(e.X), env.evalBool(e.Y)))
	case "||":
		return ghostBool(or(env.evalBool(e.X), env.evalBool(e.Y)))
	case "==>":
		return ghostBool(implies(env.withPol(-env.pol).evalBool(e.X), env.evalBool(e.Y)))
	case "<==>":
		return ghostBool(eq(env.withPol(0).evalBool(e.X), env.withPol(0).evalBool(e.Y)))
	}
	if env.pol != 0 {
		env = env.withPol(0)
	}
	x := env.eval(e.X)
	y := env.eval(e.Y)
	// nil comparisons and comparisons of composite values
	if e.Op == "==" || e.Op == "!=" {
		if r, ok := env.compositeEq(x, y); ok {
			if e.Op == "!=" {
				r = not(r)
			}
			return ghostBool(r)
		}
	}
	if x.Untyped != nil && y.Untyped != nil {
		a, b := x.Untyped, y.Untyped
		r := new(big.Int)
		switch e.Op {
		case "+":
			return untyped(r.Add(a, b))
		case "-":
			return untyped(r.Sub(a, b))
		case "*":
			return untyped(r.Mul(a, b))
		case "/":
			return untyped(r.Quo(a, b))
		case "%":
			return untyped(r.Rem(a, b))
		case "<<":
			return untyped(r.Lsh(a, uint(b.Int64())))
		case ">>":
			return untyped(r.Rsh(a, uint(b.Int64())))
		case "&":
			return untyped(r.And(a, b))
		case "|":
			return untyped(r.Or(a, b))
		case "^":
			return untyped(r.Xor(a, b))
		case "==", "!=", "<", "<=", ">", ">=":
			c := a.Cmp(b)
			res := map[string]bool{"==": c == 0, "!=": c != 0, "<": c < 0, "<=": c <= 0, ">": c > 0, ">=": c >= 0}[e.Op]
			if res {
				return ghostBool("true")
			}
			return ghostBool("false")
		}
	}
	if e.Op == "<<" || e.Op == ">>" {
		// shift count may have a different width
		if x.Untyped != nil {
			env.fail("shift of an untyped constant by a symbolic amount in %s", exprString(e))
		}
		s := x.sort()
		var cnt string
		if y.Untyped != nil {
			cnt = bvLitBig(s.Bits(), y.Untyped)
		} else {
			cnt = shiftCount(y.term(), y.sort().Bits(), s.Bits())
		}
		op := "bvshl"
		if e.Op == ">>" {
			op = "bvlshr"
			if x.signed() {
				op = "bvashr"
			}
		}
		return &SV{Sort: s, Signed: x.signed(), C: []string{appf(op, x.term(), cnt)}}
	}
	a, b, s, sg := env.coerce(x, y, e)
	if s == SBool {
		switch e.Op {
		case "==":
			return ghostBool(eq(a, b))
		case "!=":
			return ghostBool(not(eq(a, b)))
		}
		env.fail("operator %s on booleans", e.Op)
	}
	mk := func(t string) *SV { return &SV{Sort: s, Signed: sg, C: []string{t}} }
	switch e.Op {
	case "+":
		return mk(appf("bvadd", a, b))
	case "-":
		return mk(appf("bvsub", a, b))
	case "*":
		return mk(appf("bvmul", a, b))
	case "/":
		return mk(env.vc.divTerm(a, b, s.Bits(), sg, false))
	case "%":
		return mk(env.vc.divTerm(a, b, s.Bits(), sg, true))
	case "&":
		return mk(appf("bvand", a, b))
	case "|":
		return mk(appf("bvor", a, b))
	case "^":
		return mk(appf("bvxor", a, b))
	case "&^":
		return mk(app("bvand", a, app("bvnot", b)))
	case "==":
		return ghostBool(eq(a, b))
	case "!=":
		return ghostBool(not(eq(a, b)))
	case "<", "<=", ">", ">=":
		op := map[bool]map[string]string{
			true:  {"<": "bvslt", "<=": "bvsle", ">": "bvsgt", ">=": "bvsge"},
			false: {"<": "bvult", "<=": "bvule", ">": "bvugt", ">=": "bvuge"}}[sg][e.Op]
		return ghostBool(appf(op, a, b))
	}
	env.fail("unknown operator %s", e.Op)
	return nil
}

// compositeEq handles == on interfaces (incl. nil), pointers, slices vs nil.
func (env *Env) compositeEq(x, y *SV) (string, bool) {
	isNil := func(v *SV) bool { return v.T == nil && v.Sort == STid && v.Exact }
	if isNil(y) && !isNil(x) {
		x, y = y, x
	}
	if isNil(x) {
		if isNil(y) {
			return "true", true
		}
		if y.T == nil {
			env.fail("nil compared with an untyped value")
		}
		switch {
		case isInterface(y.T):
			return eq(y.C[0], bvLit(tidBits, 0)), true
		default:
			return eq(y.C[0], bvLit(refBits, 0)), true
		}
	}
	if x.T != nil && y.T != nil && len(x.C) > 1 && len(x.C) == len(y.C) {
		var cs []string
		for i := range x.C {
			cs = append(cs, eq(x.C[i], y.C[i]))
		}
		return and(cs...), true
	}
	return "", false
}

func (env *Env) evalCall(e CallE) *SV {
	vc := env.vc
	arg := func(i int) *SV { return env.eval(e.Args[i]) }
	need := func(n int) {
		if len(e.Args) != n {
			env.fail("%s expects %d arguments", e.Fn, n)
		}
	}
	if bt, ok := castTypes[e.Fn]; ok {
		need(1)
		x := arg(0)
		bits := basicBits(bt)
		if x.Untyped != nil {
			return &SV{T: bt, C: []string{bvLitBig(bits, x.Untyped)}}
		}
		return &SV{T: bt, C: []string{resize(x.term(), x.sort().Bits(), bits, x.signed())}}
	}
	switch e.Fn {
	case "old":
		need(1)
		return env.inOld().eval(e.Args[0])
	case "len", "cap":
		need(1)
		x := arg(0)
		if x.T == nil {
			env.fail("len of untyped value")
		}
		switch u := x.T.Underlying().(type) {
		case *types.Slice:
			if e.Fn == "cap" {
				return ghostBV(64, true, x.C[3])
			}
			return ghostBV(64, true, x.C[2])
		case *types.Basic:
			if u.Info()&types.IsString != 0 {
				return ghostBV(64, true, x.C[2])
			}
		case *types.Array:
			return untypedInt(u.Len())
		case *types.Pointer:
			if a, ok := u.Elem().Underlying().(*types.Array); ok {
				return untypedInt(a.Len())
			}
		}
		env.fail("len of %s", x.T)
	case "stream", "sink":
		need(1)
		x := arg(0)
		if x.T == nil || !isInterface(x.T) {
			if x.T != nil && isPointerLike(x.T) {
				return ghostRef(x.C[0])
			}
			env.fail("%s() needs an interface or pointer value", e.Fn)
		}
		return ghostRef(x.C[1])
	case "base":
		need(1)
		x := arg(0)
		if x.T != nil {
			if _, isI := x.T.Underlying().(*types.Interface); isI {
				return ghostRef(x.C[1]) // the object an interface value points to
			}
		}
		return ghostRef(x.C[0])
	case "off":
		need(1)
		return ghostBV(64, true, arg(0).C[1])
	case "Spos", "Send", "Wlen":
		need(1)
		s := arg(0).term()
		if e.Fn == "Wlen" {
			vc.saneSink(s)
		} else {
			vc.saneStream(s)
		}
		if e.Fn == "Send" {
			return ghostBV(64, true, sel("Send", s))
		}
		return ghostBV(64, true, sel(env.st.H[e.Fn], s))
	case "Sfail", "Wfail":
		need(1)
		if e.Fn == "Wfail" {
			vc.saneSink(arg(0).term())
		} else {
			vc.saneStream(arg(0).term())
		}
		return ghostBool(sel(env.st.H[e.Fn], arg(0).term()))
	case "Sin":
		need(2)
		return ghostBV(8, false, sel2("Sin", arg(0).term(), env.toBV64(arg(1))))
	case "Wout":
		need(2)
		return ghostBV(8, false, sel2(env.st.H["Wout"], arg(0).term(), env.toBV64(arg(1))))
	case "Flen", "Fpos":
		need(1)
		vc.saneFile(arg(0).term())
		return ghostBV(64, true, sel(env.st.H[e.Fn], arg(0).term()))
	case "Fdata":
		need(2)
		return ghostBV(8, false, sel2(env.st.H["Fdata"], arg(0).term(), env.toBV64(arg(1))))
	case "Frow":
		need(1)
		return &SV{Sort: sRowBytes, C: []string{sel(env.st.H["Fdata"], arg(0).term())}}
	case "file":
		need(1)
		x := arg(0)
		if x.T == nil || !isInterface(x.T) {
			env.fail("file() needs an interface value")
		}
		return ghostRef(x.C[1])
	case "Gh":
		need(1)
		return ghostBV(64, true, sel(env.st.H["Gh"], arg(0).term()))
	case "ite":
		need(3)
		c := env.withPol(0).evalBool(e.Args[0])
		a, b, s, sg := env.coerce(arg(1), arg(2), e)
		return &SV{Sort: s, Signed: sg, C: []string{ite(c, a, b)}}
	case "u", "s":
		need(1)
		x := arg(0)
		return &SV{Sort: x.sort(), Signed: e.Fn == "s", C: []string{x.term()}}
	case "all", "any", "all32", "any32":
		need(4)
		qbits := 64
		if strings.HasSuffix(e.Fn, "32") {
			qbits = 32
			e.Fn = e.Fn[:3]
		}
		id, ok := e.Args[0].(Ident)
		if !ok {
			env.fail("first argument of %s must be a variable name", e.Fn)
		}
		lo, hi := arg(1), arg(2)
		lc, lok := lo.constInt()
		hc, hok := hi.constInt()
		bound := func(v *SV) string {
			if v.Untyped != nil {
				return bvLitBig(qbits, v.Untyped)
			}
			return resize(v.term(), v.sort().Bits(), qbits, v.signed())
		}
		qs := bvSort(qbits)
		mkv := func(t string) *SV { return ghostBV(qbits, true, t) }
		if lok && hok && hc >= lc && uint64(hc)-uint64(lc) <= 64 {
			var parts []string
			for k := lc; k < hc; k++ {
				parts = append(parts, env.with(id.Name, mkv(bvLit(qbits, k))).evalBool(e.Args[3]))
			}
			if e.Fn == "all" {
				return ghostBool(and(parts...))
			}
			return ghostBool(or(parts...))
		}
		instTerm := env.inst
		if env.instMap != nil {
			instTerm = env.instMap[id.Name]
		}
		if instTerm != "" {
			// the instance term must have the quantifier's width
			if w := vc.termBits(instTerm); w != 0 && w != qbits {
				instTerm = ""
			}
		}
		if instTerm != "" && ((e.Fn == "all" && env.pol < 0) || (e.Fn == "any" && env.pol > 0)) {
			body := env.with(id.Name, mkv(instTerm)).evalBool(e.Args[3])
			rng := and(app("bvsle", bound(lo), instTerm), app("bvslt", instTerm, bound(hi)))
			if e.Fn == "all" {
				return ghostBool(implies(rng, body))
			}
			return ghostBool(and(rng, body))
		}
		if env.dropQ && e.Fn == "all" && env.pol < 0 {
			return ghostBool("true")
		}
		if (e.Fn == "all" && env.pol > 0) || (e.Fn == "any" && env.pol < 0) {
			// goal position: replace the bound variable by a fresh constant
			sk := vc.freshS(qs, "sk_"+id.Name)
			body := env.with(id.Name, mkv(sk)).evalBool(e.Args[3])
			rng := and(app("bvsle", bound(lo), sk), app("bvslt", sk, bound(hi)))
			if e.Fn == "all" {
				return ghostBool(implies(rng, body))
			}
			return ghostBool(and(rng, body))
		}
		q := vc.freshName("q_" + id.Name)
		vc.bound = append(vc.bound, q)
		defer func() { vc.bound = vc.bound[:len(vc.bound)-1] }()
		body := env.with(id.Name, mkv(q)).withPol(0).evalBool(e.Args[3])
		rng := and(app("bvsle", bound(lo), q), app("bvslt", q, bound(hi)))
		if e.Fn == "all" {
			return ghostBool(fmt.Sprintf("(forall ((%s %s)) %s)", q, qs, implies(rng, body)))
		}
		return ghostBool(fmt.Sprintf("(exists ((%s %s)) %s)", q, qs, and(rng, body)))
	case "inst":
		// inst(name, k, body) == body; records k as an instantiation term for quantifiers binding name
		if len(e.Args) != 3 {
			env.fail("inst(name, k, body)")
		}
		if id, ok := e.Args[0].(Ident); ok {
			if n, ok := e.Args[1].(Num); ok {
				if vc.goalHints == nil {
					vc.goalHints = map[string][]string{}
				}
				vc.goalHints[id.Name] = append(vc.goalHints[id.Name], bvLitBig(64, n.V), bvLitBig(32, n.V))
			}
		}
		return env.eval(e.Args[2])
	case "lfresh":
		// loop invariants: the object was allocated since the loop was entered
		need(1)
		if env.loopNext == "" {
			env.fail("lfresh() is only meaningful in loop invariants")
		}
		r := arg(0).C[0]
		return ghostBool(and(app("bvuge", r, env.loopNext), app("bvult", r, env.st.H["next"])))
	case "fresh":
		// the object was allocated after the old state
		need(1)
		r := arg(0).C[0]
		return ghostBool(and(app("bvuge", r, env.old.H["next"]), app("bvult", r, env.st.H["next"])))
	case "bytes20", "bytes16", "bytes8", "bytes4":
		// the first N bytes of a byte slice as one big-endian bit-vector
		need(1)
		x := arg(0)
		nb := map[string]int{"bytes20": 20, "bytes16": 16, "bytes8": 8, "bytes4": 4}[e.Fn]
		if x.T == nil || !isByteSlice(x.T) {
			env.fail("%s needs a byte slice", e.Fn)
		}
		var parts []string
		for k := 0; k < nb; k++ {
			parts = append(parts, sel2(env.st.H["H8"], x.C[0], cellIdx(x.C[1], k)))
		}
		return &SV{Sort: bvSort(nb * 8), Signed: false, C: []string{app("concat", parts...)}}
	case "vec16":
		// vec16(k, e): the 128-bit vector whose byte k (k = 0 most significant) is e, for k = 0..15
		need(2)
		id, ok := e.Args[0].(Ident)
		if !ok {
			env.fail("vec16(k, e): first argument must be a variable name")
		}
		var parts []string
		for k := 0; k < 16; k++ {
			b := env.with(id.Name, ghostBV(64, true, bvLit(64, int64(k)))).eval(e.Args[1])
			if b.Untyped != nil {
				parts = append(parts, bvLitBig(8, b.Untyped))
			} else {
				if b.sort().Bits() != 8 {
					env.fail("vec16: element is not a byte")
				}
				parts = append(parts, b.term())
			}
		}
		return &SV{Sort: SBV128, C: []string{app("concat", parts...)}}
	case "bitslen":
		// bitslen(x): math/bits.Len of the 64-bit value x, written independently of the model used
		// for the library function: the least k in 0..64 with x < 2^k
		need(1)
		return ghostBV(64, true, vc.bitsLen(env.toBV64(arg(0))))
	case "hi8":
		need(1)
		x := arg(0)
		return ghostBV(8, false, fmt.Sprintf("((_ extract %d %d) %s)", x.sort().Bits()-1, x.sort().Bits()-8, x.term()))
	case "sha_out":
		need(0)
		if vc.lastSha == nil {
			env.fail("sha_out(): no hash.Sum call was executed")
		}
		return &SV{Sort: bvSort(160), Signed: false, C: []string{vc.lastSha.out}}
	case "hex_in":
		need(0)
		if vc.lastHex == "" {
			env.fail("hex_in(): no hexadecimal rendering of a 20-byte value was executed")
		}
		return &SV{Sort: bvSort(160), Signed: false, C: []string{vc.lastHex}}
	case "rsa_ok":
		need(0)
		if vc.lastRSA == nil {
			env.fail("rsa_ok(): no rsa.VerifyPKCS1v15 call was executed")
		}
		return ghostBool(vc.lastRSA.ok)
	case "rsa_sig":
		need(0)
		if vc.lastRSA == nil {
			env.fail("rsa_sig(): no rsa.VerifyPKCS1v15 call was executed")
		}
		return vc.lastRSA.sig
	case "rsa_key":
		need(0)
		if vc.lastRSA == nil {
			env.fail("rsa_key(): no rsa.VerifyPKCS1v15 call was executed")
		}
		return vc.lastRSA.key
	case "has":
		need(2)
		m := arg(0)
		sh := shapeOf(m.T)
		if m.T == nil || !sh.ok {
			env.fail("has(m, k): unsupported map")
		}
		kt := env.mapKeyExpr(sh, e.Args[1])
		p, _ := mapGet(env.st, sh, m.C[0], kt)
		return ghostBool(p)
	case "flat":
		// flat(a, i): the i-th scalar cell of the (possibly nested) array lvalue a
		need(2)
		a, t, ok := env.evalAddr(e.Args[0])
		if !ok {
			env.fail("flat(a, i): %s is not an array lvalue", exprString(e.Args[0]))
		}
		leaf := t
		for {
			arr, isArr := leaf.Underlying().(*types.Array)
			if !isArr {
				break
			}
			leaf = arr.Elem()
		}
		if size(leaf) != 1 {
			env.fail("flat(a, i): leaf elements must be scalars")
		}
		i := env.toBV64(arg(1))
		return vc.loadPure(env.st, &SV{C: []string{a.C[0], bvAdd(a.C[1], i)}}, leaf)
	case "isnil":
		need(1)
		x := arg(0)
		if isInterface(x.T) {
			return ghostBool(eq(x.C[0], bvLit(tidBits, 0)))
		}
		return ghostBool(eq(x.C[0], bvLit(refBits, 0)))
	case "bits": // reinterpret: float value -> its bit pattern (identity in this model)
		need(1)
		x := arg(0)
		return &SV{Sort: x.sort(), Signed: false, C: x.C}
	case "is", "as":
		// is(x, Name): the dynamic type of interface value x is the implementation named Name (a type
		// of the package that closes the interface; generic ones are instantiated with x's type arguments);
		// as(x, Name): x's payload as a value of that type (a pointer when the pointer type implements x's interface)
		need(2)
		x := arg(0)
		id, ok := e.Args[1].(Ident)
		if !ok || x.T == nil {
			env.fail("%s(x, TypeName)", e.Fn)
		}
		var ct types.Type
		for _, c := range vc.eng.closedWorld(x.T) {
			b := c
			if p, isP := b.(*types.Pointer); isP {
				b = p.Elem()
			}
			if n, isN := b.(*types.Named); isN && n.Obj().Name() == id.Name {
				ct = c
			}
		}
		if ct == nil {
			env.fail("%s: no implementation named %s of %s", e.Fn, id.Name, x.T)
		}
		if e.Fn == "is" {
			return ghostBool(eq(x.C[0], vc.eng.typeID(ct)))
		}
		if _, isP := ct.(*types.Pointer); !isP {
			env.fail("as(x, %s): only pointer implementations are supported", id.Name)
		}
		return &SV{T: ct, C: []string{x.C[1], x.C[2]}}
	case "dyntype":
		need(1)
		return &SV{Sort: STid, C: []string{arg(0).C[0]}}
	case "typeid":
		need(1)
		id, ok := e.Args[0].(Ident)
		if !ok {
			env.fail("typeid(Name)")
		}
		t := vc.eng.lookupType(env.pkg, id.Name)
		if t == nil {
			env.fail("unknown type %s", id.Name)
		}
		return &SV{Sort: STid, C: []string{vc.eng.typeID(t)}}
	}
	if env.pkg != nil && env.pkgPath == "" {
		env.pkgPath = env.pkg.Path()
	}
	if env.pkgPath != "" {
		if m, ok := vc.eng.contracts.Macros[env.pkgPath+"::"+e.Fn]; ok {
			need(len(m.Params))
			menv := *env
			menv.names = map[string]*SV{}
			menv.lets = map[string]Expr{}
			for i, p := range m.Params {
				menv.names[p] = arg(i)
			}
			return menv.eval(m.E)
		}
	}
	if sf, ok := vc.eng.spec.funcs[e.Fn]; ok {
		need(len(sf.args))
		vc.eng.useSpec(vc, e.Fn)
		var as []string
		for i, s := range sf.args {
			a := arg(i)
			switch {
			case a.Untyped != nil:
				as = append(as, bvLitBig(s.Bits(), a.Untyped))
			case len(a.C) == 1 && a.sort() == s:
				as = append(as, a.term())
			case len(a.C) == 1 && a.sort().Bits() == s.Bits() && s.Bits() > 0:
				as = append(as, a.term())
			case s == sRowBytes && a.T == nil && a.Sort == sRowBytes:
				as = append(as, a.term())
			default:
				env.fail("argument %d of %s has the wrong sort (want %v)", i, e.Fn, s)
			}
		}
		return &SV{Sort: sf.res, Signed: sf.res != SBV8 && sf.res != SBool, C: []string{app(e.Fn, as...)}}
	}
	// rows: Sinrow(s) / Woutrow(w) / row(slice)
	switch e.Fn {
	case "Sinrow":
		need(1)
		return &SV{Sort: sRowBytes, C: []string{sel("Sin", arg(0).term())}}
	case "Woutrow":
		need(1)
		return &SV{Sort: sRowBytes, C: []string{sel(env.st.H["Wout"], arg(0).term())}}
	case "at":
		need(2)
		return ghostBV(8, false, sel(arg(0).term(), env.toBV64(arg(1))))
	case "row":
		need(1)
		return &SV{Sort: sRowBytes, C: []string{sel(env.st.H["H8"], arg(0).C[0])}}
	}
	env.fail("unknown function %q", e.Fn)
	return nil
}

// sRowBytes is a pseudo-sort for (Array BV64 BV8) arguments of spec functions.
const sRowBytes Sort = 100

func sortFromSMT(s string) (Sort, bool) {
	s = strings.Join(strings.Fields(s), " ")
	switch s {
	case "Bool":
		return SBool, true
	case "(_ BitVec 8)":
		return SBV8, true
	case "(_ BitVec 16)":
		return SBV16, true
	case "(_ BitVec 32)":
		return SBV32, true
	case "(_ BitVec 64)":
		return SBV64, true
	case "(_ BitVec 128)":
		return SBV128, true
	case "(_ BitVec 160)":
		return SBV160, true
	case "(Array (_ BitVec 64) (_ BitVec 8))":
		return sRowBytes, true
	}
	return 0, false
}

func hasQuant(e Expr) bool {
	switch x := e.(type) {
	case CallE:
		if x.Fn == "all" || x.Fn == "any" || x.Fn == "all32" || x.Fn == "any32" {
			if len(x.Args) == 4 {
				lo, lok := x.Args[1].(Num)
				hi, hok := x.Args[2].(Num)
				if lok && hok && new(big.Int).Sub(hi.V, lo.V).Cmp(big.NewInt(64)) <= 0 {
					return hasQuant(x.Args[3]) // a small constant range is expanded, not quantified
				}
			}
			return true
		}
		for _, a := range x.Args {
			if hasQuant(a) {
				return true
			}
		}
	case Unary:
		return hasQuant(x.X)
	case Binary:
		return hasQuant(x.X) || hasQuant(x.Y)
	case IndexE:
		return hasQuant(x.X) || hasQuant(x.I)
	case FieldE:
		return hasQuant(x.X)
	}
	return false
}

// assumeClause assumes guard => e (e evaluated as a hypothesis). Universally
// quantified parts of e are not emitted as quantifiers: a generator is
// recorded, and instances are added for the index terms of each later
// obligation (see instantiateFor), which keeps the queries quantifier free.
// conjuncts splits a hypothesis into its top-level conjuncts, looking through macro calls, so that
// the quantifier-free ones become separate assertions (they then survive the quantifier-free first
// attempt of the discharger, which drops every assertion that contains a quantifier).
func (env *Env) conjuncts(e Expr, depth int) []Expr {
	if b, ok := e.(Binary); ok && b.Op == "&&" {
		return append(env.conjuncts(b.X, depth), env.conjuncts(b.Y, depth)...)
	}
	if b, ok := e.(Binary); ok && b.Op == "==>" && depth < 6 {
		// X ==> (A && B)  is  (X ==> A) && (X ==> B)
		if parts := env.conjuncts(b.Y, depth+1); len(parts) > 1 {
			var out []Expr
			for _, pt := range parts {
				out = append(out, Binary{"==>", b.X, pt})
			}
			return out
		}
	}
	if c, ok := e.(CallE); ok && c.Fn == "ite" && len(c.Args) == 3 && depth < 6 {
		// a boolean ite(c, A, B) is (c ==> A) && (!c ==> B); only worth it when a branch splits further
		a, bb := env.conjuncts(c.Args[1], depth+1), env.conjuncts(c.Args[2], depth+1)
		if len(a) > 1 || len(bb) > 1 {
			var out []Expr
			for _, pt := range a {
				out = append(out, Binary{"==>", c.Args[0], pt})
			}
			for _, pt := range bb {
				out = append(out, env.conjuncts(Binary{"==>", Unary{"!", c.Args[0]}, pt}, depth+1)...)
			}
			return out
		}
	}
	if c, ok := e.(CallE); ok && depth < 6 {
		if env.pkg != nil && env.pkgPath == "" {
			env.pkgPath = env.pkg.Path()
		}
		if m, ok := env.vc.eng.contracts.Macros[env.pkgPath+"::"+c.Fn]; ok && len(m.Params) == len(c.Args) {
			splittable := false
			if b, isB := m.E.(Binary); isB && (b.Op == "&&" || b.Op == "==>") {
				splittable = true
			}
			if ce, isC := m.E.(CallE); isC && ce.Fn == "ite" {
				splittable = true
			}
			if splittable {
				// expand only when no argument mentions a name bound inside the macro body (capture)
				bound := boundNames(m.E)
				safe := true
				for _, a := range c.Args {
					for n := range identNames(a) {
						if bound[n] {
							safe = false
						}
					}
				}
				if safe {
					body := m.E
					// two-step substitution through fresh placeholders (an argument may mention a parameter name)
					for i, pn := range m.Params {
						body = substIdent(body, pn, Ident{fmt.Sprintf("\x00p%d", i)})
					}
					for i := range m.Params {
						body = substIdent(body, fmt.Sprintf("\x00p%d", i), c.Args[i])
					}
					return env.conjuncts(body, depth+1)
				}
			}
		}
	}
	return []Expr{e}
}

func identNames(e Expr) map[string]bool {
	out := map[string]bool{}
	var walk func(Expr)
	walk = func(x Expr) {
		switch y := x.(type) {
		case Ident:
			out[y.Name] = true
		case Unary:
			walk(y.X)
		case Binary:
			walk(y.X)
			walk(y.Y)
		case CallE:
			for _, a := range y.Args {
				walk(a)
			}
		case IndexE:
			walk(y.X)
			walk(y.I)
		case SliceE:
			walk(y.X)
			if y.Lo != nil {
				walk(y.Lo)
			}
			if y.Hi != nil {
				walk(y.Hi)
			}
		case FieldE:
			walk(y.X)
		}
	}
	walk(e)
	return out
}

func boundNames(e Expr) map[string]bool {
	out := map[string]bool{}
	var walk func(Expr)
	walk = func(x Expr) {
		switch y := x.(type) {
		case Unary:
			walk(y.X)
		case Binary:
			walk(y.X)
			walk(y.Y)
		case CallE:
			if (y.Fn == "all" || y.Fn == "any" || y.Fn == "all32" || y.Fn == "any32" || y.Fn == "vec16") && len(y.Args) >= 1 {
				if id, ok := y.Args[0].(Ident); ok {
					out[id.Name] = true
				}
			}
			for _, a := range y.Args {
				walk(a)
			}
		case IndexE:
			walk(y.X)
			walk(y.I)
		case FieldE:
			walk(y.X)
		}
	}
	walk(e)
	return out
}

func (env *Env) assumeClause(guard string, e Expr) {
	if cs := env.conjuncts(e, 0); len(cs) > 1 {
		for _, c := range cs {
			env.assumeClause(guard, c)
		}
		return
	}
	vc := env.vc
	h := env.withPol(-1)
	if !env.quantThroughMacros(e) {
		vc.assume(implies(guard, h.evalBool(e)))
		return
	}
	if vc.Contract != nil && vc.Contract.QFOnly {
		d := *h
		d.dropQ = true
		vc.assume(implies(guard, d.evalBool(e)))
	} else {
		vc.assume(implies(guard, h.evalBool(e)))
	}
	snap := *h
	snap.st = env.st.clone()
	if env.old != nil {
		snap.old = env.old.clone()
	}
	names := map[string]*SV{}
	for k, v := range env.names {
		names[k] = v
	}
	snap.names = names
	vc.hyps = append(vc.hyps, &hyp{contract: true, gen: func(inst string) string {
		i := snap
		// "a=t;b=u" instantiates the quantifiers that bind the variables a, b
		if k := strings.Index(inst, "="); k > 0 && !strings.HasPrefix(inst, "(") {
			i.instMap = map[string]string{}
			for _, part := range strings.Split(inst, ";") {
				if kk := strings.Index(part, "="); kk > 0 {
					i.instMap[part[:kk]] = part[kk+1:]
				}
			}
		} else {
			i.inst = inst
		}
		if vc.Contract != nil && vc.Contract.QFOnly {
			i.dropQ = true // quantifiers that are not instantiated contribute nothing
		}
		return implies(guard, i.evalBool(e))
	}})
}

func (env *Env) quantThroughMacros(e Expr) bool {
	if hasQuant(e) {
		return true
	}
	found := false
	var walk func(Expr)
	walk = func(x Expr) {
		switch y := x.(type) {
		case CallE:
			if env.pkg != nil && env.pkgPath == "" {
				env.pkgPath = env.pkg.Path()
			}
			if m, ok := env.vc.eng.contracts.Macros[env.pkgPath+"::"+y.Fn]; ok && hasQuant(m.E) {
				found = true
			}
			for _, a := range y.Args {
				walk(a)
			}
		case Unary:
			walk(y.X)
		case Binary:
			walk(y.X)
			walk(y.Y)
		}
	}
	walk(e)
	return found
}


type hyp struct {
	contract bool // an assumed contract clause with named bound variables
	gen  func(inst string) string
	base string // for copy definitions: the destination offset; instances are also made at base + skolem
}

func (vc *VC) addHyp(gen func(inst string) string) {
	vc.hyps = append(vc.hyps, &hyp{gen: gen})
}

// specReads: spec functions that read a byte row at consecutive offsets
// starting at their second argument.
var specReads = map[string]int{"be16": 2, "be32": 4, "be64": 8, "le32": 4, "leb32_run": 6, "leb32_val": 5, "leb64_run": 11, "leb64_val": 10}

// candidates collects (index term -> set of array terms) for every read of a
// 64-bit-indexed array (row) in the formula.
func (vc *VC) candidates(text string, out map[string]map[string]bool) {
	if !strings.Contains(text, "(") {
		return
	}
	defer func() { recover() }()
	add := func(idx, arr string) {
		m := out[idx]
		if m == nil {
			m = map[string]bool{}
			out[idx] = m
		}
		m[arr] = true
	}
	var walk func(x *sexp)
	walk = func(x *sexp) {
		if x.list == nil {
			return
		}
		if len(x.list) == 3 && x.list[0].list == nil && x.list[0].atom == "select" {
			as := vc.arraySort(x.list[1])
			if strings.HasPrefix(as, "(Array (_ BitVec 64) ") {
				add(x.list[2].String(), vc.rowKey(x.list[1]))
			}
		}
		if len(x.list) >= 3 && x.list[0].list == nil {
			if w, ok := specReads[x.list[0].atom]; ok {
				pos := x.list[2].String()
				for c := 0; c < w; c++ {
					add(bvAdd(pos, bvLit(64, int64(c))), vc.rowKey(x.list[1]))
				}
			}
		}
		for _, y := range x.list {
			walk(y)
		}
	}
	walk(parseSexp("(" + text + ")"))
}

// rowKey identifies the row an access goes to: stores into a row do not change
// its identity for triggering purposes (store r i v reads like r elsewhere).
func (vc *VC) rowKey(x *sexp) string {
	for x.list != nil && len(x.list) == 4 && x.list[0].atom == "store" {
		x = x.list[1]
	}
	return x.String()
}

// instantiateFor returns explicit instances of the recorded quantified
// hypotheses for one goal: at the goal's skolem constants and at the byte
// positions its specification functions read (be64(row, p) reads p..p+7).
// The quantified hypotheses themselves stay in the context; the instances
// only spare the solver the instantiations its matcher does not find.
func (vc *VC) instantiateFor(texts ...string) []string {
	if len(vc.hyps) == 0 || vc.instantiating {
		return nil
	}
	vc.instantiating = true
	defer func() { vc.instantiating = false }()
	cands := map[string]bool{}
	for _, t := range texts {
		vc.specCandidates(vc.expandScalars(t, 3), cands)
	}
	var keys []string
	for c := range cands {
		keys = append(keys, c)
	}
	sort.Strings(keys)
	var out []string
	// name-directed assignments for contract hypotheses: sk_<var>!n instantiates the
	// quantifiers binding <var>; with several skolems of one name each is tried
	byName := map[string][]string{}
	for _, c := range keys {
		if strings.HasPrefix(c, "sk_") {
			name := c[3:]
			if k := strings.Index(name, "!"); k > 0 {
				name = name[:k]
			}
			byName[name] = append(byName[name], c)
		}
	}
	for n, ts := range vc.hints {
		byName[n] = append(byName[n], ts...)
	}
	for n, ts := range vc.goalHints {
		byName[n] = append(byName[n], ts...)
	}
	// every bound-variable name may take any skolem / hint term of a matching width
	// (a chunk index quantified as d is also needed at the goal's c, and so on)
	pool := map[int][]string{}
	seenT := map[string]bool{}
	for _, ts := range byName {
		for _, t := range ts {
			if !seenT[t] {
				seenT[t] = true
				w := vc.termBits(t)
				pool[w] = append(pool[w], t)
			}
		}
	}
	for w := range pool {
		sort.Strings(pool[w])
	}
	var names []string
	for n := range byName {
		names = append(names, n)
	}
	sort.Strings(names)
	assigns := []string{""}
	for _, n := range names {
		w := vc.termBits(byName[n][0])
		cands := append([]string{}, byName[n]...)
		for _, t := range pool[w] {
			dup := false
			for _, c := range cands {
				if c == t {
					dup = true
				}
			}
			if !dup && len(cands) < 4 {
				cands = append(cands, t)
			}
		}
		var next []string
		for _, a := range assigns {
			for _, t := range cands {
				if len(next) < 64 {
					next = append(next, a+n+"="+t+";")
				}
			}
		}
		assigns = next
	}
	if traceOn {
		fmt.Fprintf(os.Stderr, "instantiateFor: %d hyps, names=%v assigns=%v hints=%v\n", len(vc.hyps), names, assigns, vc.hints)
	}
	for _, h := range vc.hyps {
		if h.contract && len(names) > 0 {
			for _, a := range assigns {
				if inst := h.gen(a); inst != "true" {
					out = append(out, "(assert "+inst+")")
				}
			}
		}
		for _, c := range keys {
			if len(out) > 300 {
				break
			}
			inst := h.gen(c)
			if inst != "true" {
				out = append(out, "(assert "+inst+")")
			}
			if h.base != "" && strings.HasPrefix(c, "sk_") {
				// the copy's k-th cell: instance at destination offset + skolem
				out = append(out, "(assert "+h.gen(bvAdd(h.base, c))+")")
			}
		}
	}
	return out
}

func (vc *VC) specCandidates(text string, out map[string]bool) {
	if !strings.Contains(text, "(") {
		return
	}
	defer func() { recover() }()
	var walk func(x *sexp)
	walk = func(x *sexp) {
		if x.list == nil {
			if strings.HasPrefix(x.atom, "sk_") && (vc.sortOf[x.atom] == "(_ BitVec 64)" || vc.sortOf[x.atom] == "(_ BitVec 32)") && !strings.HasPrefix(x.atom, "sk_r!") {
				out[x.atom] = true
			}
			return
		}
		if len(x.list) >= 3 && x.list[0].list == nil {
			if w, ok := specReads[x.list[0].atom]; ok && !strings.HasPrefix(x.list[1].String(), "(select Sin ") {
				// (the input stream is immutable: no hypothesis speaks about it)
				pos := x.list[2].String()
				for c := 0; c < w; c++ {
					out[bvAdd(pos, bvLit(64, int64(c)))] = true
				}
			}
		}
		for _, y := range x.list {
			walk(y)
		}
	}
	walk(parseSexp("(" + text + ")"))
}

// expandScalars expands define-fun names of scalar sort a few levels deep so
// that the index terms and row terms hidden behind names become visible;
// array-sorted names are kept (they identify rows / heaps).
func (vc *VC) expandScalars(t string, depth int) string {
	if depth == 0 || len(t) > 200000 {
		return t
	}
	defer func() { recover() }()
	var sb strings.Builder
	var walk func(x *sexp, d int)
	walk = func(x *sexp, d int) {
		if x.list == nil {
			if def, ok := vc.defOf[x.atom]; ok && d > 0 && len(def) < 4000 && !strings.HasPrefix(vc.sortOf[x.atom], "(Array") {
				walk(parseSexp(def), d-1)
				return
			}
			sb.WriteString(x.atom)
			return
		}
		sb.WriteByte('(')
		for i, y := range x.list {
			if i > 0 {
				sb.WriteByte(' ')
			}
			walk(y, d)
		}
		sb.WriteByte(')')
	}
	walk(parseSexp(t), depth)
	return sb.String()
}

// evalAddr resolves an lvalue expression (*p, p.f, a[i] on arrays / slices /
// pointers to arrays, and chains of these) to its address without loading the
// enclosing aggregate.
func (env *Env) evalAddr(e Expr) (addr *SV, t types.Type, ok bool) {
	defer func() {
		if r := recover(); r != nil {
			if _, isEval := r.(evalErr); isEval {
				addr, t, ok = nil, nil, false
				return
			}
			panic(r)
		}
	}()
	switch x := e.(type) {
	case Unary:
		if x.Op != "*" {
			return nil, nil, false
		}
		p := env.eval(x.X)
		if p.T == nil {
			return nil, nil, false
		}
		pt, isPtr := p.T.Underlying().(*types.Pointer)
		if !isPtr {
			return nil, nil, false
		}
		return &SV{C: []string{p.C[0], p.C[1]}}, pt.Elem(), true
	case FieldE:
		var base *SV
		var bt types.Type
		if a, at, ok := env.evalAddr(x.X); ok {
			base, bt = a, at
		} else {
			p := env.evalShallow(x.X)
			if p == nil || p.T == nil {
				return nil, nil, false
			}
			pt, isPtr := p.T.Underlying().(*types.Pointer)
			if !isPtr {
				return nil, nil, false
			}
			base, bt = &SV{C: []string{p.C[0], p.C[1]}}, pt.Elem()
		}
		if pt, isPtr := bt.Underlying().(*types.Pointer); isPtr {
			// auto-dereference p.f where the lvalue holds a pointer
			pv := env.vc.loadPure(env.st, base, bt)
			base, bt = &SV{C: []string{pv.C[0], pv.C[1]}}, pt.Elem()
		}
		stt, isStruct := bt.Underlying().(*types.Struct)
		if !isStruct {
			return nil, nil, false
		}
		off := 0
		for i := 0; i < stt.NumFields(); i++ {
			ft := stt.Field(i).Type()
			if stt.Field(i).Name() == x.Name {
				return &SV{C: []string{base.C[0], cellIdx(base.C[1], off)}}, ft, true
			}
			off += size(ft)
		}
		return nil, nil, false
	case IndexE:
		i := env.toBV64(env.eval(x.I))
		if a, at, ok := env.evalAddr(x.X); ok {
			switch u := at.Underlying().(type) {
			case *types.Array:
				return &SV{C: []string{a.C[0], bvAdd(a.C[1], env.vc.scaleReg(i, size(u.Elem())))}}, u.Elem(), true
			case *types.Slice:
				sl := env.vc.loadPure(env.st, a, at)
				return &SV{C: []string{sl.C[0], bvAdd(sl.C[1], env.vc.scaleReg(i, size(u.Elem())))}}, u.Elem(), true
			case *types.Pointer:
				if arr, isArr := u.Elem().Underlying().(*types.Array); isArr {
					pv := env.vc.loadPure(env.st, a, at)
					return &SV{C: []string{pv.C[0], bvAdd(pv.C[1], env.vc.scaleReg(i, size(arr.Elem())))}}, arr.Elem(), true
				}
			}
			return nil, nil, false
		}
		xv := env.evalShallow(x.X)
		if xv == nil || xv.T == nil {
			return nil, nil, false
		}
		switch u := xv.T.Underlying().(type) {
		case *types.Slice:
			return &SV{C: []string{xv.C[0], bvAdd(xv.C[1], env.vc.scaleReg(i, size(u.Elem())))}}, u.Elem(), true
		case *types.Pointer:
			if arr, isArr := u.Elem().Underlying().(*types.Array); isArr {
				return &SV{C: []string{xv.C[0], bvAdd(xv.C[1], env.vc.scaleReg(i, size(arr.Elem())))}}, arr.Elem(), true
			}
		}
	}
	return nil, nil, false
}

// evalShallow evaluates identifiers and calls, but not aggregates reached
// through fields / indexing (those go through evalAddr).
func (env *Env) evalShallow(e Expr) *SV {
	switch e.(type) {
	case Ident, CallE, Unary:
		return env.eval(e)
	}
	return nil
}

// tryMapIndex evaluates m[k] for a map-typed m.
func (env *Env) tryMapIndex(e IndexE) (*SV, bool) {
	var mv *SV
	if a, t, ok := env.evalAddr(e.X); ok {
		if _, isMap := t.Underlying().(*types.Map); !isMap {
			return nil, false
		}
		mv = env.vc.loadPure(env.st, a, t)
	} else if id, isId := e.X.(Ident); isId {
		v, has := env.names[id.Name]
		if !has || v.T == nil {
			return nil, false
		}
		if _, isMap := v.T.Underlying().(*types.Map); !isMap {
			return nil, false
		}
		mv = v
	} else {
		return nil, false
	}
	sh := shapeOf(mv.T)
	if !sh.ok {
		env.fail("map %s has an unsupported shape for specifications", exprString(e.X))
	}
	kt := env.mapKeyExpr(sh, e.I)
	_, vs := mapGetAll(env.st, sh, mv.C[0], kt)
	mt := mv.T.Underlying().(*types.Map)
	if len(env.vc.bound) == 0 {
		for i, s := range layout(mt.Elem()) {
			if s == SRef {
				env.vc.assume(app("bvult", vs[i], env.st.H["next"]))
			}
		}
	}
	return &SV{T: mt.Elem(), C: vs}, true
}

// mapKeyExpr: the key term of a specification-level map index (string-keyed maps take a string literal).
func (env *Env) mapKeyExpr(sh mapShape, ke Expr) string {
	if sh.kstr {
		lit, ok := ke.(StrLit)
		if !ok {
			env.fail("string-keyed map: the key must be a string literal, got %s", exprString(ke))
		}
		if lit.S == "" {
			return bvLit(64, 0)
		}
		id := env.vc.eng.globalID("str:" + lit.S)
		strKeyIDs[id] = true
		return bvLit(64, int64(id))
	}
	k := env.eval(ke)
	if k.Untyped != nil {
		return bvLitBig(sh.kbits, k.Untyped)
	}
	return resize(k.term(), k.sort().Bits(), sh.kbits, k.signed())
}

// termBits: bit width of a literal or a declared/defined name (0 if unknown).
func (vc *VC) termBits(t string) int {
	if _, w, ok := litVal(t); ok {
		return w
	}
	if strings.HasPrefix(t, "(") {
		return 64 // compound instantiation candidates are 64-bit index terms
	}
	switch vc.sortOf[t] {
	case "(_ BitVec 64)":
		return 64
	case "(_ BitVec 32)":
		return 32
	case "(_ BitVec 16)":
		return 16
	case "(_ BitVec 8)":
		return 8
	}
	return 0
}

// splitConst splits a clause of the form  all(k, lo, hi, body)  or  A ==> all(k, lo, hi, body)
// with a small constant range into one clause per value of k (each becomes its own
// obligation, which keeps the individual queries small).
func splitConst(e Expr) []Expr {
	if b, ok := e.(Binary); ok && b.Op == "==>" {
		parts := splitConst(b.Y)
		if len(parts) <= 1 {
			return []Expr{e}
		}
		var out []Expr
		for _, p := range parts {
			out = append(out, Binary{"==>", b.X, p})
		}
		return out
	}
	c, ok := e.(CallE)
	if !ok || c.Fn != "all" || len(c.Args) != 4 {
		return []Expr{e}
	}
	// all(j, lo, X + 1, body)  ==  all(j, lo, X, body)  &&  (lo <= X ==> body[j := X])
	if hb, isBin := c.Args[2].(Binary); isBin && hb.Op == "+" {
		if one, isNum := hb.Y.(Num); isNum && one.V.IsInt64() && one.V.Int64() == 1 {
			if id0, isId0 := c.Args[0].(Ident); isId0 {
				return []Expr{
					CallE{"all", []Expr{c.Args[0], c.Args[1], hb.X, c.Args[3]}},
					Binary{"==>", Binary{"<=", c.Args[1], hb.X}, substIdent(c.Args[3], id0.Name, hb.X)},
				}
			}
		}
	}
	id, isId := c.Args[0].(Ident)
	lo, lok := c.Args[1].(Num)
	hi, hok := c.Args[2].(Num)
	if !isId || !lok || !hok || !lo.V.IsInt64() || !hi.V.IsInt64() || hi.V.Int64()-lo.V.Int64() > 64 || hi.V.Int64()-lo.V.Int64() < 2 {
		return []Expr{e}
	}
	var out []Expr
	for k := lo.V.Int64(); k < hi.V.Int64(); k++ {
		// inst(j, k, body): body with j := k; quantified hypotheses binding j are instantiated at k for this goal
		out = append(out, CallE{"inst", []Expr{id, Num{big.NewInt(k)}, substIdent(c.Args[3], id.Name, Num{big.NewInt(k)})}})
	}
	return out
}

func substIdent(e Expr, name string, by Expr) Expr {
	switch x := e.(type) {
	case Ident:
		if x.Name == name {
			return by
		}
		return x
	case Unary:
		return Unary{x.Op, substIdent(x.X, name, by)}
	case Binary:
		return Binary{x.Op, substIdent(x.X, name, by), substIdent(x.Y, name, by)}
	case CallE:
		// a nested quantifier rebinding the same name shadows it
		if (x.Fn == "all" || x.Fn == "any" || x.Fn == "all32" || x.Fn == "any32" || x.Fn == "vec16") && len(x.Args) >= 1 {
			if id, ok := x.Args[0].(Ident); ok && id.Name == name {
				return x
			}
		}
		var as []Expr
		for _, a := range x.Args {
			as = append(as, substIdent(a, name, by))
		}
		return CallE{x.Fn, as}
	case IndexE:
		return IndexE{substIdent(x.X, name, by), substIdent(x.I, name, by)}
	case FieldE:
		return FieldE{substIdent(x.X, name, by), x.Name}
	case SliceE:
		var lo, hi Expr
		if x.Lo != nil {
			lo = substIdent(x.Lo, name, by)
		}
		if x.Hi != nil {
			hi = substIdent(x.Hi, name, by)
		}
		return SliceE{substIdent(x.X, name, by), lo, hi}
	}
	return e
}

#!/bin/bash
# Must-fail corpus: each patch under selftest/mutants/<prop>/*.diff is applied to a
# scratch copy of /repo's working tree; the property's check must then exit 1.
# Patches named pass_*.diff are harmless edits and must keep the check green.
# usage: selftest/run.sh [Cxx ...]
cd "$(dirname "$0")/.."
export GOFLAGS=-mod=mod GOPROXY=off GOSUMDB=off GOTOOLCHAIN=local
props="$@"
[ -z "$props" ] && props=$(ls selftest/mutants)
fail=0
for p in $props; do
  for d in selftest/mutants/$p/*.diff; do
    [ -e "$d" ] || continue
    scratch=$(mktemp -d /var/tmp/govc-mut-XXXXXX)
    rsync -a --exclude .git /repo/ "$scratch/"
    if ! (cd "$scratch" && patch -p1 -s < "$OLDPWD/$d"); then
      echo "SELFTEST $p $(basename $d): patch does not apply"; fail=1; rm -rf "$scratch"; continue
    fi
    out=$(bin/govc check -prop "$p" -repo "$scratch" -no-evidence 2>&1); rc=$?
    name=$(basename "$d")
    hit=$(echo "$out" | grep '^FAILED' | head -3 | sed 's/^FAILED //' | cut -c1-110 | tr '\n' ';')
    case "$name" in
      pass_*) if [ $rc -eq 0 ]; then echo "SELFTEST $p $name: ok (still green)"; else echo "SELFTEST $p $name: FALSE ALARM rc=$rc $hit"; fail=1; fi;;
      *) if [ $rc -eq 1 ]; then echo "SELFTEST $p $name: ok (caught: $hit)"; else echo "SELFTEST $p $name: MISSED rc=$rc"; echo "$out" | tail -3; fail=1; fi;;
    esac
    rm -rf "$scratch"
  done
done
exit $fail

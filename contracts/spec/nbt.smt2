; The NBT tag id the reflective encoder selects for a value of a given dynamic Go type
; (uninterpreted: tag selection goes through reflection and is not verified).
(declare-fun nbt_tagid ((_ BitVec 16)) (_ BitVec 8))

package main

import (
	"fmt"
	"go/types"
)

// math/bits.Len(x): the minimum number of bits needed to represent x (exact, as a chain of 64 comparisons).
func init() {
	lenModel := func(bits int) func(c *callCtx) *SV {
		return func(c *callCtx) *SV {
			x := c.args[0].C[0]
			if bits < 64 {
				x = fmt.Sprintf("((_ zero_extend %d) %s)", 64-bits, x)
			}
			return &SV{T: types.Typ[types.Int], C: []string{c.vc.defS(SBV64, c.vc.bitsLen(x), "bitslen")}}
		}
	}
	models["math/bits.Len"] = lenModel(64)
	models["math/bits.Len64"] = lenModel(64)
	models["math/bits.Len32"] = lenModel(32)
	models["math/bits.Len16"] = lenModel(16)
	models["math/bits.Len8"] = lenModel(8)
}

// bitsLen: the least k in 0..64 with x < 2^k, as one defined function shared by the library model
// and the specification builtin bitslen().
func (vc *VC) bitsLen(x string) string {
	if !vc.eng.declared(vc, "fn:bitslen64") {
		t := bvLit(64, 64)
		for k := 63; k >= 0; k-- {
			t = ite(app("bvult", "x!q", bvLitU(64, uint64(1)<<uint(k))), bvLit(64, int64(k)), t)
		}
		vc.emitHeader("(define-fun bitslen64 ((x!q (_ BitVec 64))) (_ BitVec 64) " + t + ")")
	}
	return app("bitslen64", x)
}

func bvLitU(bits int, v uint64) string {
	switch bits {
	case 64:
		return fmt.Sprintf("#x%016x", v)
	case 32:
		return fmt.Sprintf("#x%08x", v)
	case 16:
		return fmt.Sprintf("#x%04x", v)
	case 8:
		return fmt.Sprintf("#x%02x", v)
	}
	panic("bvLitU")
}

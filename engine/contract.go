package main

import (
	"fmt"
	"math/big"
	"os"
	"path/filepath"
	"regexp"
	"strconv"
	"strings"
)

// ---------------------------------------------------------------- expressions

type Expr interface{}

type (
	Num    struct{ V *big.Int }
	Ident  struct{ Name string }
	Unary  struct {
		Op string
		X  Expr
	}
	Binary struct {
		Op   string
		X, Y Expr
	}
	CallE struct {
		Fn   string
		Args []Expr
	}
	IndexE struct{ X, I Expr }
	FieldE struct {
		X    Expr
		Name string
	}
	SliceE struct{ X, Lo, Hi Expr }
	StrLit struct{ S string }
)

type lexer struct {
	toks []string
	pos  int
	src  string
}

var tokRe = regexp.MustCompile(`^(\s+|<==>|==>|\|\||&&|==|!=|<=|>=|<<|>>|&\^|0[xX][0-9a-fA-F_]+|[0-9][0-9_]*|"(?:[^"\\]|\\.)*"|[A-Za-z_][A-Za-z_0-9']*|[-+*/%&|^!<>()\[\]{}.,:;@#?])`)

func lex(s string) ([]string, error) {
	var toks []string
	rest := s
	for len(rest) > 0 {
		m := tokRe.FindString(rest)
		if m == "" {
			return nil, fmt.Errorf("cannot lex %q in %q", rest, s)
		}
		rest = rest[len(m):]
		if strings.TrimSpace(m) == "" {
			continue
		}
		toks = append(toks, m)
	}
	return toks, nil
}

func parseExpr(s string) (Expr, error) {
	toks, err := lex(s)
	if err != nil {
		return nil, err
	}
	l := &lexer{toks: toks, src: s}
	var e Expr
	func() {
		defer func() {
			if r := recover(); r != nil {
				if pe, ok := r.(parseErr); ok {
					err = pe
					return
				}
				panic(r)
			}
		}()
		e = l.expr(0)
		if l.pos != len(l.toks) {
			panic(parseErr{fmt.Sprintf("trailing tokens %v in %q", l.toks[l.pos:], s)})
		}
	}()
	return e, err
}

type parseErr struct{ msg string }

func (p parseErr) Error() string { return p.msg }

func (l *lexer) peek() string {
	if l.pos < len(l.toks) {
		return l.toks[l.pos]
	}
	return ""
}
func (l *lexer) next() string {
	t := l.peek()
	l.pos++
	return t
}
func (l *lexer) expect(t string) {
	if l.peek() != t {
		panic(parseErr{fmt.Sprintf("expected %q, got %q in %q", t, l.peek(), l.src)})
	}
	l.pos++
}

var binPrec = map[string]int{
	"<==>": 1, "==>": 2, "||": 3, "&&": 4,
	"==": 5, "!=": 5, "<": 5, "<=": 5, ">": 5, ">=": 5,
	"+": 6, "-": 6, "|": 6, "^": 6,
	"*": 7, "/": 7, "%": 7, "<<": 7, ">>": 7, "&": 7, "&^": 7,
}

func (l *lexer) expr(minPrec int) Expr {
	x := l.unary()
	for {
		op := l.peek()
		p, ok := binPrec[op]
		if !ok || p < minPrec {
			return x
		}
		l.next()
		var y Expr
		if op == "==>" {
			y = l.expr(p) // right associative
		} else {
			y = l.expr(p + 1)
		}
		x = Binary{op, x, y}
	}
}

func (l *lexer) unary() Expr {
	switch t := l.peek(); t {
	case "!", "-", "*", "^":
		l.next()
		return Unary{t, l.unary()}
	}
	return l.postfix(l.primary())
}

func (l *lexer) primary() Expr {
	t := l.next()
	switch {
	case t == "(":
		e := l.expr(0)
		l.expect(")")
		return e
	case t == "":
		panic(parseErr{"unexpected end of expression in " + l.src})
	case t[0] >= '0' && t[0] <= '9':
		v, ok := new(big.Int).SetString(strings.ReplaceAll(t, "_", ""), 0)
		if !ok {
			panic(parseErr{"bad number " + t})
		}
		return Num{v}
	case t[0] == '"':
		s, err := strconv.Unquote(t)
		if err != nil {
			panic(parseErr{"bad string " + t})
		}
		return StrLit{s}
	case t[0] == '_' || (t[0] >= 'a' && t[0] <= 'z') || (t[0] >= 'A' && t[0] <= 'Z'):
		return Ident{t}
	}
	panic(parseErr{fmt.Sprintf("unexpected token %q in %q", t, l.src)})
}

func (l *lexer) postfix(x Expr) Expr {
	for {
		switch l.peek() {
		case "(":
			id, ok := x.(Ident)
			if !ok {
				panic(parseErr{"call of non-identifier in " + l.src})
			}
			l.next()
			var args []Expr
			for l.peek() != ")" {
				args = append(args, l.expr(0))
				if l.peek() == "," {
					l.next()
				}
			}
			l.expect(")")
			x = CallE{id.Name, args}
		case "[":
			l.next()
			var lo, hi Expr
			if l.peek() != ":" {
				lo = l.expr(0)
			}
			if l.peek() == ":" {
				l.next()
				if l.peek() != "]" {
					hi = l.expr(0)
				}
				l.expect("]")
				x = SliceE{x, lo, hi}
			} else {
				l.expect("]")
				x = IndexE{x, lo}
			}
		case ".":
			l.next()
			name := l.next()
			x = FieldE{x, name}
		default:
			return x
		}
	}
}

func exprString(e Expr) string {
	switch e := e.(type) {
	case Num:
		return e.V.String()
	case Ident:
		return e.Name
	case StrLit:
		return strconv.Quote(e.S)
	case Unary:
		return e.Op + exprString(e.X)
	case Binary:
		return "(" + exprString(e.X) + " " + e.Op + " " + exprString(e.Y) + ")"
	case CallE:
		var a []string
		for _, x := range e.Args {
			a = append(a, exprString(x))
		}
		return e.Fn + "(" + strings.Join(a, ", ") + ")"
	case IndexE:
		return exprString(e.X) + "[" + exprString(e.I) + "]"
	case FieldE:
		return exprString(e.X) + "." + e.Name
	case SliceE:
		s := exprString(e.X) + "["
		if e.Lo != nil {
			s += exprString(e.Lo)
		}
		s += ":"
		if e.Hi != nil {
			s += exprString(e.Hi)
		}
		return s + "]"
	}
	return "?"
}

// ---------------------------------------------------------------- contracts

type Clause struct {
	Label string
	Text  string
	E     Expr
	Tags  []string
	File  string
	Line  int
}

type LoopAnn struct {
	Kind   string // "unroll", "bounded", "invariant"
	N      int
	Inv    []Clause
	Decr   *Clause
	Hints  []Let    // "loop k: hint v = expr": instantiation terms evaluated at the loop head
	Split  *Split   // "loop k: split E in lo..hi": one VC per value of E at the loop head
	Mod    []Clause // "loop k: modifies ..." (locations the body may change; checked per iteration)
	HasMod bool
}

type Let struct {
	Name string
	E    Expr
	Text string
}

type FuncContract struct {
	Pkg      string // package path
	Key      string // e.g. "(*VarInt).ReadFrom" or "readByte"
	Recv     string
	Params   []string
	Results  []string
	Lets     []Let
	Requires []Clause
	Ensures  []Clause
	Modifies []Clause // each E is a location expression
	HasMod   bool     // a "modifies" clause was given (possibly "nothing")
	Loops    map[int]*LoopAnn
	Panics   *Clause // "panics when C"
	PanicsOnly bool  // "panics only when C": C is necessary for a panic, not sufficient
	Replay   []string
	Imports  []string // extra imports for the replay test
	Inline   bool   // never use as a call contract; inline at call sites
	Trusted  bool   // contract is assumed, body is not verified
	PerReturn bool  // check postconditions and frame at every return separately
	Prune bool // ask the solvers at every branch of the function whether it is infeasible; infeasible branches are not executed (a discharged dead-branch obligation records each)
	AliasBytes bool // (*bytes.Buffer).Bytes returns a slice that aliases the buffer's content (writes through it are seen by the buffer) instead of a copy
	SplitDispatch bool // one VC per dynamic type at closed-world interface calls (instead of merging the alternatives)
	Splits   []Split
	File     string
	Line     int
	MayAlias [][2]string
	Stable   []Clause // locations assumed unchanged by calls of unknown effect
	QFOnly   bool     // qfonly: quantified hypotheses are never emitted as quantifiers, only as instances (keeps the queries quantifier free)
	Hints    []Let    // hint v = expr: extra instantiation term for hypotheses quantifying a variable named v
	GuardVar string  // fileguard a: expr  -- every physical file write may only touch offsets a satisfying expr (evaluated in the entry state)
	Guard    *Clause
}

type Split struct {
	Text   string
	E      Expr
	Lo, Hi int64
	Else   bool // "split E in lo..hi else": one more case for every value outside lo..hi
}

type Lemma struct {
	Name   string
	Pkg    string
	Params []LemmaParam
	Body   Clause
	Tags   []string
}

type LemmaParam struct {
	Name string
	Sort string // "bv8","bv16","bv32","bv64","bool","i8".. (iN signed, uN unsigned)
}

type Macro struct {
	Name   string
	Params []string
	E      Expr
	Text   string
}

type ContractSet struct {
	Macros map[string]*Macro        // key: pkgpath + "::" + name
	Funcs  map[string]*FuncContract // key: pkgpath + "::" + Key
	Lemmas []*Lemma
	Files  []string
	Scan   []string // lines mentioning assume / trusted
}

var headRe = regexp.MustCompile(`^func\s+(?:\(([^)]*)\)\.)?([A-Za-z_0-9\[\]\.\*,/ ]+?)\s*\(([^)]*)\)\s*(?:\(([^)]*)\))?\s*$`)
var tagRe = regexp.MustCompile(`\[(@[^\]]*)\]\s*$`)

func splitNames(s string) []string {
	var out []string
	for _, p := range strings.FieldsFunc(s, func(r rune) bool { return r == ',' || r == ';' || r == ' ' }) {
		out = append(out, p)
	}
	return out
}

// loadContracts reads every contracts_verif.go under root (the repository).
func loadContracts(root string, pkgPathOf func(dir string) string) (*ContractSet, error) {
	cs := &ContractSet{Funcs: map[string]*FuncContract{}, Macros: map[string]*Macro{}}
	var files []string
	filepath.Walk(root, func(p string, info os.FileInfo, err error) error {
		if err == nil && !info.IsDir() && info.Name() == "contracts_verif.go" {
			files = append(files, p)
		}
		return nil
	})
	for _, f := range files {
		pkg := pkgPathOf(filepath.Dir(f))
		if err := cs.parseFile(f, pkg); err != nil {
			return nil, err
		}
		cs.Files = append(cs.Files, f)
	}
	return cs, nil
}

func (cs *ContractSet) parseFile(path, pkg string) error {
	data, err := os.ReadFile(path)
	if err != nil {
		return err
	}
	type item struct {
		kw, text string
		line     int
	}
	var items []item
	keywords := map[string]bool{"func": true, "lemma": true, "requires": true, "ensures": true, "modifies": true,
		"loop": true, "let": true, "panics": true, "replay": true, "import": true, "inline": true, "trusted": true, "perreturn": true, "splitdispatch": true, "prune": true, "aliasbytes": true,
		"split": true, "stable": true, "mayalias": true, "assume": true, "define": true, "fileguard": true, "hint": true, "qfonly": true}
	for i, ln := range strings.Split(string(data), "\n") {
		t := strings.TrimSpace(ln)
		if !strings.HasPrefix(t, "//@") {
			continue
		}
		t = strings.TrimSpace(t[3:])
		if t == "" {
			continue
		}
		// strip trailing comment " // ..."
		if k := strings.Index(t, " // "); k >= 0 && !strings.HasPrefix(t, "replay") {
			t = strings.TrimSpace(t[:k])
		}
		kw := t
		if k := strings.IndexAny(t, " \t:"); k > 0 {
			kw = t[:k]
		}
		if keywords[kw] {
			items = append(items, item{kw, strings.TrimSpace(t[len(kw):]), i + 1})
		} else if len(items) > 0 {
			items[len(items)-1].text += " " + t
		} else {
			return fmt.Errorf("%s:%d: continuation line without a clause", path, i+1)
		}
		if strings.Contains(t, "assume") || strings.Contains(t, "trusted") {
			cs.Scan = append(cs.Scan, fmt.Sprintf("%s:%d: %s", filepath.Base(filepath.Dir(path)), i+1, t))
		}
	}
	var cur *FuncContract
	mkClause := func(text string, line int) (Clause, error) {
		c := Clause{File: path, Line: line}
		if m := tagRe.FindStringSubmatch(text); m != nil {
			c.Tags = strings.Fields(m[1])
			text = strings.TrimSpace(text[:len(text)-len(m[0])])
		}
		if strings.HasPrefix(text, "#") {
			k := strings.IndexAny(text, " \t")
			if k < 0 {
				return c, fmt.Errorf("%s:%d: label without expression", path, line)
			}
			c.Label = text[1:k]
			text = strings.TrimSpace(text[k:])
		}
		c.Text = text
		e, err := parseExpr(text)
		if err != nil {
			return c, fmt.Errorf("%s:%d: %v", path, line, err)
		}
		c.E = e
		return c, nil
	}
	for _, it := range items {
		switch it.kw {
		case "func":
			m := headRe.FindStringSubmatch("func " + it.text)
			if m == nil {
				return fmt.Errorf("%s:%d: bad func header %q", path, it.line, it.text)
			}
			cur = &FuncContract{Pkg: pkg, Loops: map[int]*LoopAnn{}, File: path, Line: it.line}
			name := strings.TrimSpace(m[2])
			if m[1] != "" {
				cur.Key = "(" + strings.TrimSpace(m[1]) + ")." + name
			} else {
				cur.Key = name
			}
			ps := strings.SplitN(m[3], ";", 2)
			if len(ps) == 2 {
				r := splitNames(ps[0])
				if len(r) != 1 {
					return fmt.Errorf("%s:%d: receiver binding must be one name", path, it.line)
				}
				cur.Recv = r[0]
				cur.Params = splitNames(ps[1])
			} else {
				cur.Params = splitNames(ps[0])
			}
			cur.Results = splitNames(m[4])
			k := pkg + "::" + cur.Key
			if _, dup := cs.Funcs[k]; dup {
				return fmt.Errorf("%s:%d: duplicate contract for %s", path, it.line, k)
			}
			cs.Funcs[k] = cur
		case "define":
			// define name(a, b) = expr
			k := strings.Index(it.text, "=")
			p := strings.Index(it.text, "(")
			q := strings.Index(it.text, ")")
			if k < 0 || p < 0 || q < p || q > k {
				return fmt.Errorf("%s:%d: define name(params) = expr", path, it.line)
			}
			e, err := parseExpr(strings.TrimSpace(it.text[k+1:]))
			if err != nil {
				return fmt.Errorf("%s:%d: %v", path, it.line, err)
			}
			m := &Macro{Name: strings.TrimSpace(it.text[:p]), Params: splitNames(it.text[p+1 : q]), E: e, Text: it.text}
			cs.Macros[pkg+"::"+m.Name] = m
			cur = nil
		case "lemma":
			// lemma name(x bv32, y bv64): expr
			k := strings.Index(it.text, ":")
			if k < 0 {
				return fmt.Errorf("%s:%d: lemma needs ':'", path, it.line)
			}
			head := it.text[:k]
			p := strings.Index(head, "(")
			q := strings.LastIndex(head, ")")
			if p < 0 || q < p {
				return fmt.Errorf("%s:%d: bad lemma header", path, it.line)
			}
			lm := &Lemma{Name: strings.TrimSpace(head[:p]), Pkg: pkg}
			for _, ps := range strings.Split(head[p+1:q], ",") {
				f := strings.Fields(ps)
				if len(f) == 0 {
					continue
				}
				if len(f) != 2 {
					return fmt.Errorf("%s:%d: bad lemma parameter %q", path, it.line, ps)
				}
				lm.Params = append(lm.Params, LemmaParam{f[0], f[1]})
			}
			c, err := mkClause(strings.TrimSpace(it.text[k+1:]), it.line)
			if err != nil {
				return err
			}
			lm.Body = c
			lm.Tags = c.Tags
			cs.Lemmas = append(cs.Lemmas, lm)
			cur = nil
		default:
			if cur == nil {
				return fmt.Errorf("%s:%d: clause %q outside a func contract", path, it.line, it.kw)
			}
			switch it.kw {
			case "requires", "ensures", "assume":
				c, err := mkClause(it.text, it.line)
				if err != nil {
					return err
				}
				if it.kw == "requires" {
					cur.Requires = append(cur.Requires, c)
				} else {
					cur.Ensures = append(cur.Ensures, c)
				}
			case "modifies":
				cur.HasMod = true
				if strings.TrimSpace(tagRe.ReplaceAllString(it.text, "")) == "nothing" {
					break
				}
				text := it.text
				var tags []string
				if m := tagRe.FindStringSubmatch(text); m != nil {
					tags = strings.Fields(m[1])
					text = strings.TrimSpace(text[:len(text)-len(m[0])])
				}
				for _, part := range splitTop(text) {
					c, err := mkClause(part, it.line)
					if err != nil {
						return err
					}
					c.Tags = tags
					cur.Modifies = append(cur.Modifies, c)
				}
			case "let":
				k := strings.Index(it.text, "=")
				if k < 0 {
					return fmt.Errorf("%s:%d: let needs '='", path, it.line)
				}
				e, err := parseExpr(strings.TrimSpace(it.text[k+1:]))
				if err != nil {
					return fmt.Errorf("%s:%d: %v", path, it.line, err)
				}
				cur.Lets = append(cur.Lets, Let{strings.TrimSpace(it.text[:k]), e, it.text})
			case "loop":
				// loop K: unroll N | bounded N | invariant E | decreases E
				k := strings.Index(it.text, ":")
				if k < 0 {
					return fmt.Errorf("%s:%d: loop needs ':'", path, it.line)
				}
				idx, err := strconv.Atoi(strings.TrimSpace(it.text[:k]))
				if err != nil {
					return fmt.Errorf("%s:%d: bad loop ordinal", path, it.line)
				}
				rest := strings.TrimSpace(it.text[k+1:])
				f := strings.Fields(rest)
				la := cur.Loops[idx]
				if la == nil {
					la = &LoopAnn{}
					cur.Loops[idx] = la
				}
				switch f[0] {
				case "unroll", "bounded":
					n, err := strconv.Atoi(f[1])
					if err != nil {
						return fmt.Errorf("%s:%d: bad unroll count", path, it.line)
					}
					la.Kind, la.N = f[0], n
				case "invariant":
					c, err := mkClause(strings.TrimSpace(rest[len("invariant"):]), it.line)
					if err != nil {
						return err
					}
					la.Kind = "invariant"
					la.Inv = append(la.Inv, c)
				case "hint":
					t := strings.TrimSpace(rest[len("hint"):])
					k := strings.Index(t, "=")
					if k < 0 {
						return fmt.Errorf("%s:%d: loop k: hint v = expr", path, it.line)
					}
					e, err := parseExpr(strings.TrimSpace(t[k+1:]))
					if err != nil {
						return fmt.Errorf("%s:%d: %v", path, it.line, err)
					}
					la.Hints = append(la.Hints, Let{strings.TrimSpace(t[:k]), e, t})
				case "split":
					t := strings.TrimSpace(rest[len("split"):])
					k := strings.LastIndex(t, " in ")
					if k < 0 {
						return fmt.Errorf("%s:%d: loop k: split E in lo..hi", path, it.line)
					}
					e, err := parseExpr(strings.TrimSpace(t[:k]))
					if err != nil {
						return fmt.Errorf("%s:%d: %v", path, it.line, err)
					}
					r := strings.Split(strings.TrimSpace(t[k+4:]), "..")
					if len(r) != 2 {
						return fmt.Errorf("%s:%d: split range lo..hi", path, it.line)
					}
					lo, err1 := strconv.ParseInt(strings.TrimSpace(r[0]), 0, 64)
					hi, err2 := strconv.ParseInt(strings.TrimSpace(r[1]), 0, 64)
					if err1 != nil || err2 != nil {
						return fmt.Errorf("%s:%d: bad split range", path, it.line)
					}
					la.Split = &Split{strings.TrimSpace(t[:k]), e, lo, hi, false}
				case "modifies":
					la.HasMod = true
					text := strings.TrimSpace(rest[len("modifies"):])
					if text != "nothing" {
						for _, part := range splitTop(text) {
							c, err := mkClause(part, it.line)
							if err != nil {
								return err
							}
							la.Mod = append(la.Mod, c)
						}
					}
				case "decreases":
					c, err := mkClause(strings.TrimSpace(rest[len("decreases"):]), it.line)
					if err != nil {
						return err
					}
					la.Decr = &c
				default:
					return fmt.Errorf("%s:%d: unknown loop annotation %q", path, it.line, f[0])
				}
			case "panics":
				t := strings.TrimSpace(it.text)
				if strings.HasPrefix(t, "only when") {
					// 'panics only when C': a panic implies C, but C does not force a panic
					cur.PanicsOnly = true
					t = strings.TrimSpace(t[5:])
				}
				if !strings.HasPrefix(t, "when") {
					return fmt.Errorf("%s:%d: expected 'panics [only] when C'", path, it.line)
				}
				c, err := mkClause(strings.TrimSpace(t[4:]), it.line)
				if err != nil {
					return err
				}
				cur.Panics = &c
			case "replay":
				cur.Replay = append(cur.Replay, strings.TrimPrefix(strings.TrimSpace(it.text), ":"))
			case "import":
				cur.Imports = append(cur.Imports, strings.Fields(it.text)...)
			case "qfonly":
				cur.QFOnly = true
			case "hint":
				k := strings.Index(it.text, "=")
				if k < 0 {
					return fmt.Errorf("%s:%d: hint v = expr", path, it.line)
				}
				e, err := parseExpr(strings.TrimSpace(it.text[k+1:]))
				if err != nil {
					return fmt.Errorf("%s:%d: %v", path, it.line, err)
				}
				cur.Hints = append(cur.Hints, Let{strings.TrimSpace(it.text[:k]), e, it.text})
			case "fileguard":
				k := strings.Index(it.text, ":")
				if k < 0 {
					return fmt.Errorf("%s:%d: fileguard a: expr", path, it.line)
				}
				c, err := mkClause(strings.TrimSpace(it.text[k+1:]), it.line)
				if err != nil {
					return err
				}
				cur.GuardVar, cur.Guard = strings.TrimSpace(it.text[:k]), &c
			case "inline":
				cur.Inline = true
			case "trusted":
				cur.Trusted = true
			case "perreturn":
				cur.PerReturn = true
			case "splitdispatch":
				cur.SplitDispatch = true
			case "prune":
				cur.Prune = true
			case "aliasbytes":
				cur.AliasBytes = true
			case "stable":
				// stable E: calls whose effect is unknown (no modifies clause) are assumed not to change the
				// location E (an assumption, listed in the evidence)
				for _, part := range splitTop(it.text) {
					c, err := mkClause(part, it.line)
					if err != nil {
						return err
					}
					cur.Stable = append(cur.Stable, c)
				}
			case "mayalias":
				n := splitNames(it.text)
				if len(n) != 2 {
					return fmt.Errorf("%s:%d: mayalias a, b", path, it.line)
				}
				cur.MayAlias = append(cur.MayAlias, [2]string{n[0], n[1]})
			case "split":
				// split E in lo..hi
				k := strings.LastIndex(it.text, " in ")
				if k < 0 {
					return fmt.Errorf("%s:%d: split E in lo..hi", path, it.line)
				}
				e, err := parseExpr(strings.TrimSpace(it.text[:k]))
				if err != nil {
					return fmt.Errorf("%s:%d: %v", path, it.line, err)
				}
				rng := strings.TrimSpace(it.text[k+4:])
				els := false
				if strings.HasSuffix(rng, " else") {
					els = true
					rng = strings.TrimSpace(strings.TrimSuffix(rng, " else"))
				}
				r := strings.Split(rng, "..")
				if len(r) != 2 {
					return fmt.Errorf("%s:%d: split range lo..hi", path, it.line)
				}
				lo, err1 := strconv.ParseInt(strings.TrimSpace(r[0]), 0, 64)
				hi, err2 := strconv.ParseInt(strings.TrimSpace(r[1]), 0, 64)
				if err1 != nil || err2 != nil {
					return fmt.Errorf("%s:%d: bad split range", path, it.line)
				}
				cur.Splits = append(cur.Splits, Split{strings.TrimSpace(it.text[:k]), e, lo, hi, els})
			}
		}
	}
	return nil
}

// splitTop splits on commas that are not nested in brackets/parens.
func splitTop(s string) []string {
	var out []string
	depth, start := 0, 0
	for i, r := range s {
		switch r {
		case '(', '[':
			depth++
		case ')', ']':
			depth--
		case ',':
			if depth == 0 {
				out = append(out, strings.TrimSpace(s[start:i]))
				start = i + 1
			}
		}
	}
	if t := strings.TrimSpace(s[start:]); t != "" {
		out = append(out, t)
	}
	return out
}

func (c Clause) hasTag(tags map[string]bool) bool {
	if tags == nil {
		return true
	}
	if len(c.Tags) == 0 {
		return tags["@untagged"]
	}
	for _, t := range c.Tags {
		if tags[t] {
			return true
		}
	}
	return false
}

package main

import (
	"fmt"
	"go/types"
	"sort"
	"strings"

	"golang.org/x/tools/go/ssa"
)

// bindEnv builds the contract environment for fn: the contract's own names
// are bound to the receiver, parameters and results by position.
func (vc *VC) bindEnv(fc *FuncContract, fn *ssa.Function, args []*SV, results []*SV, st, old *State) *Env {
	env := &Env{vc: vc, names: map[string]*SV{}, lets: map[string]Expr{}, st: st, old: old, what: fc.Key, pkgPath: fc.Pkg}
	if fn.Pkg != nil {
		env.pkg = fn.Pkg.Pkg
	} else if fn.Origin() != nil && fn.Origin().Pkg != nil {
		env.pkg = fn.Origin().Pkg.Pkg
	}
	sig := fn.Signature
	i := 0
	if sig.Recv() != nil && fc.Recv == "" && len(fc.Params) == len(args) && len(args) > 0 {
		fc.Recv, fc.Params = fc.Params[0], fc.Params[1:]
	}
	if sig.Recv() != nil {
		if fc.Recv == "" {
			panic(evalErr{fmt.Sprintf("CONTRACT-STALE: %s: method contract must bind the receiver: func (T).M(recv; params)", fc.Key)})
		}
		env.names[fc.Recv] = args[0]
		i = 1
	} else if fc.Recv != "" {
		panic(evalErr{fmt.Sprintf("CONTRACT-STALE: %s: function has no receiver", fc.Key)})
	}
	if len(fc.Params) != len(args)-i {
		panic(evalErr{fmt.Sprintf("CONTRACT-STALE: %s: contract binds %d parameters, function has %d", fc.Key, len(fc.Params), len(args)-i)})
	}
	for k, p := range fc.Params {
		env.names[p] = args[i+k]
	}
	if len(fc.Results) != 0 && len(fc.Results) != sig.Results().Len() {
		panic(evalErr{fmt.Sprintf("CONTRACT-STALE: %s: contract binds %d results, function has %d", fc.Key, len(fc.Results), sig.Results().Len())})
	}
	if results != nil {
		for k, r := range fc.Results {
			env.names[r] = results[k]
		}
	}
	for _, l := range fc.Lets {
		env.lets[l.Name] = l.E
	}
	return env
}

// modTarget is one evaluated "modifies" location.
type modTarget struct {
	kind  string // "cells", "range", "ghost", "ghostrow"
	heap  string
	sort  Sort
	ref   string
	lo    string // first cell (cells/range)
	n     int    // number of cells (cells)
	hi    string // one past last cell (range)
	what  string
}

// evalModifies evaluates the modifies clauses in the (pre-)state of env.
func (vc *VC) evalModifies(fc *FuncContract, env *Env) []modTarget {
	return vc.evalModClauses(fc.Modifies, env)
}

func (vc *VC) evalModClauses(clauses []Clause, env *Env) []modTarget {
	var out []modTarget
	addCells := func(ref, idx string, t types.Type, what string) {
		l := layout(t)
		for i, s := range l {
			out = append(out, modTarget{kind: "cells", heap: s.heap(), sort: s, ref: ref, lo: cellIdx(idx, i), n: 1, what: what})
		}
	}
	for _, m := range clauses {
		switch e := m.E.(type) {
		case Unary:
			if e.Op != "*" {
				env.fail("bad modifies target %s", m.Text)
			}
			p := env.eval(e.X)
			if _, isI := p.T.Underlying().(*types.Interface); isI {
				// *x for an interface value: the whole object its data pointer refers to
				for _, s := range allHeapSorts {
					out = append(out, modTarget{kind: "object", heap: s.heap(), sort: s, ref: p.C[1], what: m.Text})
				}
				continue
			}
			pt, ok := p.T.Underlying().(*types.Pointer)
			if !ok {
				env.fail("modifies *%s: not a pointer", exprString(e.X))
			}
			addCells(p.C[0], p.C[1], pt.Elem(), m.Text)
		case SliceE:
			x := env.eval(e.X)
			var base, off, ln string
			var et types.Type
			switch u := x.T.Underlying().(type) {
			case *types.Slice:
				base, off, ln, et = x.C[0], x.C[1], x.C[2], u.Elem()
			case *types.Pointer:
				arr, ok := u.Elem().Underlying().(*types.Array)
				if !ok {
					env.fail("modifies %s: not a slice or array pointer", m.Text)
				}
				base, off, ln, et = x.C[0], x.C[1], bvLit(64, arr.Len()), arr.Elem()
			default:
				env.fail("modifies %s: not a slice", m.Text)
			}
			lo, hi := bvLit(64, 0), ln
			if e.Lo != nil {
				lo = env.toBV64(env.eval(e.Lo))
			}
			if e.Hi != nil {
				hi = env.toBV64(env.eval(e.Hi))
			}
			l := layout(et)
			es := len(l)
			seen := map[Sort]bool{}
			for _, s := range l {
				if seen[s] {
					continue
				}
				seen[s] = true
				out = append(out, modTarget{kind: "range", heap: s.heap(), sort: s, ref: base,
					lo: app("bvadd", off, vc.scaleReg(lo, es)), hi: app("bvadd", off, vc.scaleReg(hi, es)), what: m.Text})
			}
		case IndexE:
			a, t, ok := env.evalAddr(e)
			if !ok {
				env.fail("bad modifies target %s", m.Text)
			}
			addCells(a.C[0], a.C[1], t, m.Text)
		case FieldE:
			if a, t, ok := env.evalAddr(e); ok && size(t) <= 64 {
				addCells(a.C[0], a.C[1], t, m.Text)
				break
			} else if ok {
				// large aggregate field (array): a range of cells
				seen := map[Sort]bool{}
				for _, srt := range layoutSorts(t) {
					if !seen[srt] {
						seen[srt] = true
						out = append(out, modTarget{kind: "range", heap: srt.heap(), sort: srt, ref: a.C[0], lo: a.C[1], hi: bvAdd(a.C[1], bvLit(64, int64(size(t)))), what: m.Text})
					}
				}
				break
			}
			x := env.eval(e.X)
			pt, ok := x.T.Underlying().(*types.Pointer)
			if !ok {
				env.fail("modifies %s: not a pointer to struct", m.Text)
			}
			stt, ok := pt.Elem().Underlying().(*types.Struct)
			if !ok {
				env.fail("modifies %s: not a struct", m.Text)
			}
			off := 0
			found := false
			for i := 0; i < stt.NumFields(); i++ {
				ft := stt.Field(i).Type()
				if stt.Field(i).Name() == e.Name {
					addCells(x.C[0], cellIdx(x.C[1], off), ft, m.Text)
					found = true
					break
				}
				off += size(ft)
			}
			if !found {
				env.fail("modifies %s: no such field", m.Text)
			}
		case CallE:
			switch e.Fn {
			case "Spos", "Sfail", "Wlen", "Wfail", "Gh":
				out = append(out, modTarget{kind: "ghost", heap: e.Fn, ref: env.eval(e.Args[0]).term(), what: m.Text})
			case "Wout":
				out = append(out, modTarget{kind: "ghost", heap: "Wout", ref: env.eval(e.Args[0]).term(), what: m.Text})
			case "file":
				r := env.eval(e).term()
				for _, h := range []string{"Fdata", "Flen", "Fpos"} {
					out = append(out, modTarget{kind: "ghost", heap: h, ref: r, what: m.Text})
				}
			case "Fpos", "Flen":
				out = append(out, modTarget{kind: "ghost", heap: e.Fn, ref: env.eval(e.Args[0]).term(), what: m.Text})
			case "map":
				mv := env.eval(e.Args[0])
				sh := shapeOf(mv.T)
				if !sh.ok {
					env.fail("modifies %s: unsupported map", m.Text)
				}
				out = append(out, modTarget{kind: "ghost", heap: sh.dom, ref: mv.C[0], what: m.Text})
				for _, vk := range sh.vals {
					out = append(out, modTarget{kind: "ghost", heap: vk, ref: mv.C[0], what: m.Text})
				}
			case "stream": // shorthand: Spos and Sfail of the stream
				r := env.eval(e).term()
				out = append(out, modTarget{kind: "ghost", heap: "Spos", ref: r, what: m.Text}, modTarget{kind: "ghost", heap: "Sfail", ref: r, what: m.Text})
			case "sink":
				r := env.eval(e).term()
				for _, h := range []string{"Wout", "Wlen", "Wfail"} {
					out = append(out, modTarget{kind: "ghost", heap: h, ref: r, what: m.Text})
				}
			default:
				env.fail("bad modifies target %s", m.Text)
			}
		default:
			env.fail("bad modifies target %s", m.Text)
		}
	}
	return out
}

var ghostMaps = func() []string {
	out := []string{"Spos", "Sfail", "Wout", "Wlen", "Wfail", "Gh", "Fdata", "Flen", "Fpos"}
	for k := range mapKeys() {
		out = append(out, k)
	}
	sort.Strings(out)
	return out
}()

func ghostElemSort(h string) string {
	if strings.HasPrefix(h, "M") {
		// row sort of a map component: the element sort of its (Array Ref X)
		sx := parseSexp(stateSorts[h])
		return sx.list[2].String()
	}
	switch h {
	case "Fdata":
		return rowSort(SBV8)
	case "Flen", "Fpos":
		return "(_ BitVec 64)"
	}
	switch h {
	case "Spos", "Wlen", "Gh":
		return "(_ BitVec 64)"
	case "Sfail", "Wfail":
		return "Bool"
	case "Wout":
		return rowSort(SBV8)
	}
	panic(h)
}

// havocTargets forgets the listed locations in st.
func (vc *VC) havocTargets(st *State, targets []modTarget) {
	for _, t := range targets {
		switch t.kind {
		case "cells":
			st.H[t.heap] = vc.def(heapSort(t.sort), sto2(st.H[t.heap], t.ref, t.lo, vc.freshS(t.sort, "hv")), t.heap)
		case "range":
			old := sel(st.H[t.heap], t.ref)
			nr := vc.fresh(rowSort(t.sort), "hvrow")
			lo, hi := t.lo, t.hi
			gen := func(j string) string {
				return implies(not(and(app("bvsle", lo, j), app("bvslt", j, hi))), eq(sel(nr, j), sel(old, j)))
			}
			vc.assume(fmt.Sprintf("(forall ((j!q (_ BitVec 64))) (! %s :pattern ((select %s j!q))))", gen("j!q"), nr))
			vc.addHyp(gen)
			st.H[t.heap] = vc.def(heapSort(t.sort), sto(st.H[t.heap], t.ref, nr), t.heap)
		case "ghost":
			st.H[t.heap] = vc.def(stateSorts[t.heap], sto(st.H[t.heap], t.ref, vc.fresh(ghostElemSort(t.heap), "hv")), t.heap)
		case "object":
			st.H[t.heap] = vc.def(heapSort(t.sort), sto(st.H[t.heap], t.ref, vc.fresh(rowSort(t.sort), "hvobj")), t.heap)
		}
	}
}

// frameGoals gives, per heap / ghost map, the proposition that everything
// outside the targets is unchanged between old and cur for objects that
// existed in old.
func (vc *VC) frameGoals(old, cur *State, targets []modTarget) map[string]string {
	goals := map[string]string{}
	if vc.skR == "" {
		vc.skR = vc.freshS(SRef, "sk_r")
		vc.skI = vc.freshS(SBV64, "sk_i")
	}
	r, i := vc.skR, vc.skI
	for _, s := range allHeapSorts {
		h := s.heap()
		if old.H[h] == cur.H[h] {
			continue
		}
		var exc []string
		for _, t := range targets {
			if t.heap != h {
				continue
			}
			switch t.kind {
			case "cells":
				exc = append(exc, and(eq(r, t.ref), eq(i, t.lo)))
			case "range":
				exc = append(exc, and(eq(r, t.ref), app("bvsle", t.lo, i), app("bvslt", i, t.hi)))
			case "object":
				exc = append(exc, eq(r, t.ref))
			}
		}
		goals[h] = implies(and(app("bvult", r, old.H["next"]), not(or(exc...))), eq(sel2(cur.H[h], r, i), sel2(old.H[h], r, i)))
	}
	for _, h := range ghostMaps {
		if old.H[h] == cur.H[h] {
			continue
		}
		var exc []string
		for _, t := range targets {
			if t.heap == h && t.kind == "ghost" {
				exc = append(exc, eq(r, t.ref))
			}
		}
		// (objects allocated since the old state, e.g. local buffers, are not part of the frame)
		goals[h] = implies(and(app("bvult", r, old.H["next"]), not(or(exc...))), eq(sel(cur.H[h], r), sel(old.H[h], r)))
	}
	return goals
}

// applyContract uses the contract of fn at a call site: assert requires,
// havoc modifies, assume ensures.
func (vc *VC) applyContract(f *Frame, n *Node, in ssa.Instruction, fn *ssa.Function, fc *FuncContract, args []*SV) *SV {
	pre := n.St.clone()
	callee := fc.Key
	env := vc.bindEnv(fc, fn, args, nil, pre, pre)
	env.what = callee + " (called from " + f.fn.Name() + ")"
	for i, r := range fc.Requires {
		vc.oblige("call-requires", fmt.Sprintf("precondition %d of %s: %s%s", i, callee, r.Text, f.wherei(in)), n.Reach, env.evalGoal(r.E), append([]string{"@requires"}, r.Tags...)...)
	}
	if fc.Panics != nil {
		p := env.withPol(-1).evalBool(fc.Panics.E)
		if f.depth == 0 && f.panicsC != "" {
			// the caller declares its own panic condition: the callee may panic only under it
			// (and execution continues only if it did not)
			vc.oblige("call-panics", fmt.Sprintf("%s panics when %s, outside the caller's declared 'panics when' condition%s", callee, fc.Panics.Text, f.wherei(in)), n.Reach, implies(p, f.panicsC), "@panics")
			vc.assume(implies(n.Reach, not(p)))
		} else {
			vc.oblige("call-panics", fmt.Sprintf("%s panics when %s%s", callee, fc.Panics.Text, f.wherei(in)), n.Reach, not(p), "@nopanic")
		}
	}
	vc.separation(f, n, in, fn, fc, args)
	st := n.St
	var modTargets []modTarget
	if fc.HasMod {
		modTargets = vc.evalModifies(fc, env)
		vc.havocTargets(st, modTargets)
		// allocation is always permitted
		nn := vc.fresh(stateSorts["next"], "next")
		vc.assume(and(app("bvuge", nn, st.H["next"]), app("bvult", nn, bvLit(refBits, 1<<30))))
		st.H["next"] = nn
	} else {
		vc.havocAll(st, "call_"+fn.Name())
	}
	sig := fn.Signature
	var results []*SV
	for i := 0; i < sig.Results().Len(); i++ {
		results = append(results, vc.freshSV(sig.Results().At(i).Type(), "r_"+fn.Name(), st))
	}
	post := vc.bindEnv(fc, fn, args, results, st, pre)
	post.what = env.what
	for _, e := range fc.Ensures {
		post.assumeClause(n.Reach, e.E)
	}
	// bytes written through a slice that aliases a bytes.Buffer (aliasing model of Bytes()) are the buffer's content
	seenSync := map[string]bool{}
	for _, t := range modTargets {
		if t.heap == "H8" && !seenSync[t.ref] {
			seenSync[t.ref] = true
			vc.bufSyncOut(st, t.ref)
		}
	}
	// a *bytes.Buffer handed to the callee as a writer never fails
	for _, a := range args {
		if a.T != nil && isInterface(a.T) && a.Exact && len(a.Cands) == 1 && a.Cands[0].String() == "*bytes.Buffer" {
			vc.note(aBuffer)
			vc.assume(implies(n.Reach, not(sel(st.H["Wfail"], a.C[1]))))
		}
	}
	vc.note("callee contract used: " + fc.Pkg + "::" + fc.Key)
	vc.eng.noteContractUse(fc)
	return vc.resultOf(sig, results)
}

// separation: distinct slice/pointer arguments of a contracted callee must not
// alias (the callee was verified under that assumption).
func (vc *VC) separation(f *Frame, n *Node, in ssa.Instruction, fn *ssa.Function, fc *FuncContract, args []*SV) {
	type pa struct {
		name string
		v    *SV
	}
	var ps []pa
	names := fc.Params
	if fc.Recv != "" {
		names = append([]string{fc.Recv}, names...)
	}
	for i, a := range args {
		if a.T == nil {
			continue
		}
		switch a.T.Underlying().(type) {
		case *types.Slice, *types.Pointer:
			ps = append(ps, pa{names[i], a})
		}
	}
	for i := 0; i < len(ps); i++ {
		for j := i + 1; j < len(ps); j++ {
			if fc.mayAlias(ps[i].name, ps[j].name) {
				continue
			}
			a, b := ps[i].v, ps[j].v
			goal := or(not(eq(a.C[0], b.C[0])), eq(a.C[0], bvLit(refBits, 0)))
			vc.oblige("call-separation", fmt.Sprintf("arguments %s and %s of %s must not alias%s", ps[i].name, ps[j].name, fc.Key, f.wherei(in)), n.Reach, goal, "@requires")
		}
	}
}

func (fc *FuncContract) mayAlias(a, b string) bool {
	for _, m := range fc.MayAlias {
		if (m[0] == a && m[1] == b) || (m[0] == b && m[1] == a) {
			return true
		}
	}
	return false
}

func layoutSorts(t types.Type) []Sort {
	leaf := t
	for {
		arr, ok := leaf.Underlying().(*types.Array)
		if !ok {
			break
		}
		leaf = arr.Elem()
	}
	return layout(leaf)
}

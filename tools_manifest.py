#!/usr/bin/env python3
"""Regenerates MANIFEST.json from properties/*.json + claims.json (kept by hand)."""
import json, subprocess, os
V='/verif'
claims=json.load(open(f'{V}/claims.json'))
props=[json.loads(l) for l in open(f'{V}/properties.jsonl')]
hooks=subprocess.run("git -C /repo log --format=%H --grep='^verif hook'",shell=True,capture_output=True,text=True).stdout.split()
checks=[];na=[];served=[]
for p in props:
    id=p['id']
    c=claims.get(id)
    if c and c.get('claimed'):
        served.append(id)
        checks.append({
          'property_id':id,
          'quick_cmd':f'./check {id} --tier quick',
          'thorough_cmd':f'./check {id} --tier thorough',
          'evidence_file':f'/verif/evidence/{id}.json',
          'replay_cmd_template':f'./check {id} --replay {{path}}',
          'engine':'govc',
          'level_claimed':{'category':'proof','text':c['text'],'design_ref':c.get('design_ref','DESIGN.md §6 '+id)},
          'level_note':c['note'],
          'technique':c.get('technique','contract-based deductive verification: VCs generated from go/ssa of the real code against contracts in contracts_verif.go, discharged by z3/z3-new/cvc5')})
    else:
        na.append({'property_id':id,'reason':(c or {}).get('reason','contracts not completed; nothing is claimed')})
m={'version':1,
 'setup_cmd':'cd /verif/engine && GOFLAGS=-mod=vendor GOPROXY=off GOSUMDB=off GOTOOLCHAIN=local go build -o /verif/bin/govc .',
 'hooks':{'guard':'verif','enable':'contract files <pkg>/contracts_verif.go carry //go:build verif and contain only comments; govc loads the repository with -tags=verif',
   'baseline_off_cmd':'cd /repo && go test -vet=off -count=1 ./...','source_commits':hooks,'add_only':True},
 'engines':[{'name':'govc','path':'/verif/engine','serves_properties':served,'kind_free_text':'homemade deductive verifier for Go: weakest-precondition style VC generation over go/ssa (x/tools v0.29.0, vendored), contracts as //@ comments in build-tagged files, SMT portfolio z3 4.8.12 / z3 5.1.0 / cvc5 1.0.3, counterexample replay through go test -overlay'}],
 'checks':checks,'not_applicable':na,
 'notes':'See DESIGN.md. Every claimed check is the same technique (contracts + deductive VCs on the real code). known_findings.json lists fixed defects and recorded findings.'}
json.dump(m,open(f'{V}/MANIFEST.json','w'),indent=1)
print('claimed',served)

package main

import (
	"fmt"
	"os"
	"go/constant"
	"go/token"
	"go/types"
	"math/big"
	"strings"

	"golang.org/x/tools/go/ssa"
)

type retInfo struct {
	cond string
	vals []*SV
	st   *State
}

type deferred struct {
	call  *ssa.CallCommon
	node  *Node
	reach string
	args  []*SV
	fnv   *SV
}

// Frame is one activation of a function being executed symbolically.
type Frame struct {
	vc      *VC
	fn      *ssa.Function
	g       *Graph
	fc      *FuncContract
	params  []*SV
	free    []*SV
	vals    map[ssa.Value]map[string]*SV
	memo    map[ssa.Value]map[*Node]*SV
	depth   int
	stack   []*ssa.Function
	rets    []retInfo
	defers  []deferred
	path    string // call path for notes
	topEnv  *Env   // contract environment of the function under verification (top frame only)
	panicsC string // "panics when" condition evaluated at entry (top frame only)
	entry   *State
	loopFrames map[string]*loopFrame
	loopNexts  map[string]string // allocation counter at the entry of each cut loop
	measures map[*Loop]string
}

func (f *Frame) where(in ssa.Instruction) string {
	pos := in.Pos()
	p := ""
	if pos.IsValid() {
		ps := f.fn.Prog.Fset.Position(pos)
		fn := ps.Filename
		if k := strings.LastIndex(fn, "/"); k >= 0 {
			fn = fn[k+1:]
		}
		p = fmt.Sprintf(" at %s:%d", fn, ps.Line)
	}
	return f.path + p
}

func (f *Frame) loopsOf(b *ssa.BasicBlock) []*Loop {
	var ls []*Loop
	for _, l := range f.g.Loops {
		if l.Body[b] {
			ls = append(ls, l)
		}
	}
	return ls
}

func (f *Frame) setVal(v ssa.Value, n *Node, sv *SV) {
	m := f.vals[v]
	if m == nil {
		m = map[string]*SV{}
		f.vals[v] = m
	}
	m[n.Key] = sv
}

// get returns the symbolic value of v as seen from node at.
func (f *Frame) get(v ssa.Value, at *Node) *SV {
	switch c := v.(type) {
	case *ssa.Const:
		return f.vc.constSV(c)
	case *ssa.Parameter:
		for i, p := range f.fn.Params {
			if p == c {
				return f.params[i]
			}
		}
		panic("unknown parameter")
	case *ssa.FreeVar:
		for i, p := range f.fn.FreeVars {
			if p == c {
				if i < len(f.free) {
					return f.free[i]
				}
			}
		}
		panic(unsupported("free variable " + c.Name()))
	case *ssa.Global:
		return f.vc.globalPtr(c)
	case *ssa.Function:
		return f.vc.funcValue(c)
	case *ssa.Builtin:
		panic(unsupported("builtin as value"))
	}
	in, ok := v.(ssa.Instruction)
	if !ok {
		panic(unsupported(fmt.Sprintf("value %T", v)))
	}
	db := in.Block()
	// direct instance?
	iters := map[*Loop]int{}
	direct := true
	for _, l := range f.loopsOf(db) {
		it, ok := at.Iters[l]
		if !ok {
			direct = false
			break
		}
		iters[l] = it
	}
	if direct {
		k := nodeKey(db, iters, f.g.Loops)
		if sv, ok := f.vals[v][k]; ok {
			return sv
		}
		panic(fmt.Sprintf("govc internal: value %s (%s) not available at %s (looked for %s) in %s", v.Name(), v.String(), at.Key, k, f.fn))
	}
	// v is defined inside a loop that `at` has left: merge over incoming edges.
	if sv, ok := f.memo[v][at]; ok {
		return sv
	}
	var conds []string
	var vals []*SV
	for _, e := range at.In {
		conds = append(conds, e.Cond)
		vals = append(vals, f.get(v, e.From))
	}
	if len(vals) == 0 {
		panic("govc internal: no incoming edges for merged lookup")
	}
	sv := mergeSVs(f.vc, conds, vals)
	if f.memo[v] == nil {
		f.memo[v] = map[*Node]*SV{}
	}
	f.memo[v][at] = sv
	return sv
}

func (vc *VC) constSV(c *ssa.Const) *SV {
	t := c.Type()
	if c.Value == nil {
		z := zeroSV(t)
		z.Exact = true
		return z
	}
	switch u := t.Underlying().(type) {
	case *types.Basic:
		switch {
		case u.Info()&types.IsBoolean != 0:
			if constant.BoolVal(c.Value) {
				return &SV{T: t, C: []string{"true"}}
			}
			return &SV{T: t, C: []string{"false"}}
		case u.Info()&types.IsInteger != 0:
			bi, ok := new(big.Int).SetString(c.Value.ExactString(), 10)
			if !ok {
				if v, exact := constant.Int64Val(constant.ToInt(c.Value)); exact {
					bi = big.NewInt(v)
				} else {
					panic(unsupported("integer constant " + c.Value.ExactString()))
				}
			}
			return &SV{T: t, C: []string{bvLitBig(basicBits(u), bi)}}
		case u.Info()&types.IsFloat != 0:
			f, _ := constant.Float64Val(c.Value)
			return &SV{T: t, C: []string{vc.floatConst(f, basicBits(u))}}
		case u.Info()&types.IsString != 0:
			return vc.stringConst(constant.StringVal(c.Value), t)
		}
	}
	panic(unsupported("constant of type " + t.String()))
}

func (vc *VC) exec(f *Frame, reach string, st *State) {
	g := f.g
	f.entry = st
	for _, n := range g.Order {
		if n == g.Entry {
			n.Reach = reach
			n.St = st.clone()
		} else {
			if len(n.In) == 0 {
				n.Reach = "false"
				continue
			}
			var cs []string
			for _, e := range n.In {
				cs = append(cs, e.Cond)
			}
			n.Reach = vc.def("Bool", or(cs...), "reach_"+n.Key)
			n.St = vc.mergeStates(n.In)
		}
		if n.Reach == "false" {
			continue
		}
		vc.execNode(f, n)
	}
}

func (vc *VC) edgeTo(f *Frame, from *Node, se *succEdge, cond string) {
	if cond == "false" {
		return
	}
	switch se.Sink {
	case "":
		se.To.In = append(se.To.In, &Edge{From: from, PredIdx: se.PredIdx, Cond: cond, St: from.St.clone()})
	case "unwind":
		vc.oblige("unwind", fmt.Sprintf("loop %d of %s needs more than %d iterations%s", se.Loop.Ordinal, f.fn.Name(), se.Loop.Ann.N, f.path), cond, "false", "@unwind")
	case "bounded":
		vc.Bounded = true
		vc.note(fmt.Sprintf("BOUNDED: loop %d of %s explored for at most %d iterations", se.Loop.Ordinal, f.fn.String(), se.Loop.Ann.N))
	case "invariant":
		vc.checkInvariant(f, se.Loop, from, se.PredIdx, cond, "preserved")
	}
}

func (vc *VC) execNode(f *Frame, n *Node) {
	// loop header cut by an invariant
	var invLoop *Loop
	for _, l := range f.g.Loops {
		if l.Header == n.B && l.Ann.Kind == "invariant" {
			invLoop = l
		}
	}
	for _, in := range n.B.Instrs {
		if invLoop != nil {
			if _, isPhi := in.(*ssa.Phi); !isPhi {
				vc.cutLoop(f, invLoop, n)
				invLoop = nil
			}
		}
		vc.execInstr(f, n, in)
		if n.done {
			return
		}
	}
}

func (vc *VC) execInstr(f *Frame, n *Node, in ssa.Instruction) {
	if traceOn {
		fmt.Fprintf(os.Stderr, "%s[%s] %s\n", strings.Repeat("  ", f.depth), n.Key, in.String())
	}
	st := n.St
	switch in := in.(type) {
	case *ssa.DebugRef:
	case *ssa.Phi:
		var conds []string
		var vals []*SV
		for _, e := range n.In {
			conds = append(conds, e.Cond)
			vals = append(vals, f.get(in.Edges[e.PredIdx], e.From))
		}
		if len(vals) == 0 {
			panic("phi without incoming edges")
		}
		f.setVal(in, n, mergeSVs(vc, conds, vals))
	case *ssa.Alloc:
		et := in.Type().Underlying().(*types.Pointer).Elem()
		ref := vc.alloc(st, et, in.Name())
		f.setVal(in, n, &SV{T: in.Type(), C: []string{ref, bvLit(64, 0)}, NonNil: true})
	case *ssa.Store:
		addr := f.get(in.Addr, n)
		val := f.get(in.Val, n)
		vc.nilCheck(f, n, in, addr)
		vc.store(st, addr, val)
	case *ssa.UnOp:
		x := f.get(in.X, n)
		switch in.Op {
		case token.MUL:
			vc.nilCheck(f, n, in, x)
			lv := vc.load(st, x, in.Type(), in.Name())
			if g, isGlobal := in.X.(*ssa.Global); isGlobal && in.Type().String() == "error" {
				// package-level error values (ErrXxx, io.EOF) are initialised once and never nil
				vc.note("standing: package-level variables of type error are non-nil and are never reassigned")
				vc.assume(not(eq(lv.C[0], bvLit(tidBits, 0))))
				// and they keep their entry value
				ev := vc.loadPure(vc.entryOr(st), x, in.Type())
				for k := range lv.C {
					vc.assume(eq(lv.C[k], ev.C[k]))
				}
				_ = g
			}
			f.setVal(in, n, lv)
		case token.NOT:
			f.setVal(in, n, &SV{T: in.Type(), C: []string{not(x.C[0])}})
		case token.SUB:
			if isFloat(in.Type()) {
				f.setVal(in, n, &SV{T: in.Type(), C: []string{app(vc.uf("fneg", x.sort(), x.sort()), x.C[0])}})
			} else {
				f.setVal(in, n, &SV{T: in.Type(), C: []string{vc.defS(x.sort(), app("bvneg", x.C[0]), in.Name())}})
			}
		case token.XOR:
			f.setVal(in, n, &SV{T: in.Type(), C: []string{vc.defS(x.sort(), app("bvnot", x.C[0]), in.Name())}})
		default:
			panic(unsupported("unary op " + in.Op.String()))
		}
	case *ssa.BinOp:
		f.setVal(in, n, vc.binop(f, n, in))
	case *ssa.Convert:
		f.setVal(in, n, vc.convert(f, n, in))
	case *ssa.ChangeType:
		x := f.get(in.X, n)
		y := *x
		y.T = in.Type()
		f.setVal(in, n, &y)
	case *ssa.ChangeInterface:
		x := f.get(in.X, n)
		y := *x
		y.T = in.Type()
		f.setVal(in, n, &y)
	case *ssa.MakeInterface:
		x := f.get(in.X, n)
		f.setVal(in, n, vc.makeInterface(st, x, in.Type()))
	case *ssa.TypeAssert:
		f.setVal(in, n, vc.typeAssert(f, n, in))
	case *ssa.Extract:
		t := f.get(in.Tuple, n)
		if t.Sub == nil {
			panic("extract from non-tuple")
		}
		f.setVal(in, n, t.Sub[in.Index])
	case *ssa.FieldAddr:
		x := f.get(in.X, n)
		vc.nilCheck(f, n, in, x)
		stt := in.X.Type().Underlying().(*types.Pointer).Elem().Underlying().(*types.Struct)
		off := 0
		for i := 0; i < in.Field; i++ {
			off += size(stt.Field(i).Type())
		}
		idx := x.C[1]
		if off != 0 {
			idx = vc.defS(SBV64, bvAdd(x.C[1], bvLit(64, int64(off))), in.Name())
		}
		f.setVal(in, n, &SV{T: in.Type(), C: []string{x.C[0], idx}, NonNil: true})
	case *ssa.Field:
		x := f.get(in.X, n)
		stt := in.X.Type().Underlying().(*types.Struct)
		off := 0
		for i := 0; i < in.Field; i++ {
			off += size(stt.Field(i).Type())
		}
		ft := stt.Field(in.Field).Type()
		f.setVal(in, n, &SV{T: ft, C: x.C[off : off+size(ft)]})
	case *ssa.IndexAddr:
		f.setVal(in, n, vc.indexAddr(f, n, in))
	case *ssa.Index:
		f.setVal(in, n, vc.indexValue(f, n, in))
	case *ssa.Lookup:
		f.setVal(in, n, vc.lookup(f, n, in))
	case *ssa.Slice:
		f.setVal(in, n, vc.slice(f, n, in))
	case *ssa.MakeSlice:
		ln := f.get(in.Len, n)
		cp := f.get(in.Cap, n)
		l64 := vc.toInt64(ln)
		c64 := vc.toInt64(cp)
		vc.oblige("make-nonneg", "make: len out of range"+f.where(in), n.Reach,
			and(app("bvsle", bvLit(64, 0), l64), app("bvsle", l64, c64)), "@nopanic")
		et := in.Type().Underlying().(*types.Slice).Elem()
		ref := vc.alloc(st, et, in.Name())
		f.setVal(in, n, &SV{T: in.Type(), C: []string{ref, bvLit(64, 0), l64, c64}, NonNil: true})
	case *ssa.MakeMap:
		ref := vc.allocRaw(st, in.Name())
		vc.mapInit(st, ref, in.Type())
		f.setVal(in, n, &SV{T: in.Type(), C: []string{ref, bvLit(64, 0)}, NonNil: true})
	case *ssa.MapUpdate:
		vc.mapUpdate(f, n, in)
	case *ssa.MakeClosure:
		fn := in.Fn.(*ssa.Function)
		sv := vc.funcValue(fn)
		cl := *sv
		cl.T = in.Type()
		for _, b := range in.Bindings {
			cl.Sub = append(cl.Sub, f.get(b, n))
		}
		f.setVal(in, n, &cl)
	case *ssa.Call:
		res := vc.call(f, n, in, &in.Call, n.Reach)
		if res != nil {
			f.setVal(in, n, res)
		}
	case *ssa.Defer:
		d := deferred{call: &in.Call, node: n, reach: n.Reach}
		for _, a := range in.Call.Args {
			d.args = append(d.args, f.get(a, n))
		}
		d.fnv = f.get(in.Call.Value, n)
		f.defers = append(f.defers, d)
	case *ssa.RunDefers:
		for i := len(f.defers) - 1; i >= 0; i-- {
			d := f.defers[i]
			vc.callDeferred(f, n, d)
		}
	case *ssa.If:
		c := f.get(in.Cond, n).C[0]
		e0 := vc.def("Bool", and(n.Reach, c), "e")
		e1 := vc.def("Bool", and(n.Reach, not(c)), "e")
		if f.depth == 0 && f.fc != nil && f.fc.Prune {
			if vc.infeasibleT(e1, "branch not taken"+f.where(in), 45) {
				e1 = "false"
			} else if vc.infeasibleT(e0, "branch taken"+f.where(in), 45) {
				e0 = "false"
			}
		}
		vc.edgeTo(f, n, n.Succs[0], e0)
		vc.edgeTo(f, n, n.Succs[1], e1)
	case *ssa.Jump:
		vc.edgeTo(f, n, n.Succs[0], n.Reach)
	case *ssa.Return:
		var vals []*SV
		for _, r := range in.Results {
			vals = append(vals, f.get(r, n))
		}
		f.rets = append(f.rets, retInfo{n.Reach, vals, n.St.clone()})
	case *ssa.Panic:
		vc.panicAt(f, n, in)
		n.done = true
	case *ssa.Range:
		f.setVal(in, n, vc.rangeInit(f, n, in))
	case *ssa.Next:
		f.setVal(in, n, vc.rangeNext(f, n, in))
	case *ssa.SliceToArrayPointer:
		x := f.get(in.X, n)
		al := in.Type().Underlying().(*types.Pointer).Elem().Underlying().(*types.Array).Len()
		vc.oblige("slice-to-array", "slice too short for array conversion"+f.where(in), n.Reach,
			app("bvsge", x.C[2], bvLit(64, al)), "@nopanic")
		f.setVal(in, n, &SV{T: in.Type(), C: []string{x.C[0], x.C[1]}})
	case *ssa.Go, *ssa.Select, *ssa.Send, *ssa.MakeChan:
		panic(unsupported(fmt.Sprintf("concurrency instruction %T in %s", in, f.fn)))
	default:
		panic(unsupported(fmt.Sprintf("instruction %T in %s", in, f.fn)))
	}
}

// ----------------------------------------------------------------- memory

func (vc *VC) allocRaw(st *State, hint string) string {
	ref := vc.defS(SRef, st.H["next"], "ref_"+hint)
	if vc.allocRefs == nil {
		vc.allocRefs = map[string]bool{}
		vc.shadow = map[string]*SV{}
	}
	vc.allocRefs[ref] = true
	st.H["next"] = vc.defS(SRef, app("bvadd", ref, bvLit(refBits, 1)), "next")
	return ref
}

// alloc makes a fresh zeroed object able to hold values of type et.
func (vc *VC) alloc(st *State, et types.Type, hint string) string {
	ref := vc.allocRaw(st, hint)
	if et.String() == "bytes.Buffer" {
		// a new bytes.Buffer is an empty, never failing sink that can be read back
		st.H["Wlen"] = vc.def(stateSorts["Wlen"], sto(st.H["Wlen"], ref, bvLit(64, 0)), "Wlen")
		st.H["Gh"] = vc.def(stateSorts["Gh"], sto(st.H["Gh"], ref, bvLit(64, 0)), "Gh")
		st.H["Wfail"] = vc.def(stateSorts["Wfail"], sto(st.H["Wfail"], ref, "false"), "Wfail")
		return ref
	}
	seen := map[Sort]bool{}
	var sorts []Sort
	switch u := et.Underlying().(type) {
	case *types.Array:
		sorts = layout(u.Elem())
	default:
		sorts = layout(et)
	}
	for _, s := range sorts {
		if seen[s] {
			continue
		}
		seen[s] = true
		h := s.heap()
		st.H[h] = vc.def(heapSort(s), sto(st.H[h], ref, fmt.Sprintf("((as const %s) %s)", rowSort(s), zeroOf(s))), h)
	}
	return ref
}

func (vc *VC) nilCheck(f *Frame, n *Node, in ssa.Instruction, p *SV) {
	if p.NonNil {
		return
	}
	vc.oblige("nil-deref", "nil pointer dereference"+f.where(in), n.Reach, not(eq(p.C[0], bvLit(refBits, 0))), "@nopanic")
}

func cellIdx(base string, k int) string {
	return bvAdd(base, bvLit(64, int64(k)))
}

func (vc *VC) store(st *State, addr *SV, val *SV) {
	t := addr.T.Underlying().(*types.Pointer).Elem()
	l := layout(t)
	if len(l) != len(val.C) {
		panic(fmt.Sprintf("store: layout mismatch %s (%d) vs value %v (%d)", t, len(l), val.T, len(val.C)))
	}
	if len(l) > 256 {
		panic(unsupported("store of very large value"))
	}
	for i, s := range l {
		h := s.heap()
		st.H[h] = vc.def(heapSort(s), sto2(st.H[h], addr.C[0], cellIdx(addr.C[1], i), val.C[i]), h)
		if h == "H8" {
			vc.bufSyncOut(st, addr.C[0])
		}
	}
	// shadow: remember the dynamic-type metadata of interface values stored in
	// local objects at constant offsets (used only to pick dispatch candidates)
	if vc.allocRefs[addr.C[0]] {
		if _, _, lit := litVal(addr.C[1]); lit {
			if isInterface(t) {
				vc.shadow[addr.C[0]+"|"+addr.C[1]] = val
			}
		} else {
			for k := range vc.shadow {
				if strings.HasPrefix(k, addr.C[0]+"|") {
					delete(vc.shadow, k)
				}
			}
		}
	}
}

func (vc *VC) load(st *State, addr *SV, t types.Type, hint string) *SV {
	l := layout(t)
	if len(l) > 256 {
		panic(unsupported("load of very large value"))
	}
	v := &SV{T: t, C: make([]string, len(l))}
	for i, s := range l {
		v.C[i] = vc.defS(s, vc.readCell(st.H[s.heap()], addr.C[0], cellIdx(addr.C[1], i)), hint)
		if s == SRef {
			vc.assume(app("bvult", v.C[i], st.H["next"]))
			if vc.entry != nil {
				// the entry heap is closed: its cells hold references to objects that existed at entry
				vc.assume(app("bvult", sel2(vc.entry.H["Href"], addr.C[0], cellIdx(addr.C[1], i)), vc.entry.H["next"]))
			}
		}
	}
	vc.constrainSV(v)
	vc.notSelf(t, v.C, addr.C[0])
	if isInterface(t) && hasMethod(t, "Seek") {
		v.File = true
	}
	if isInterface(t) {
		if sh, ok := vc.shadow[addr.C[0]+"|"+addr.C[1]]; ok {
			v.File = v.File || sh.File
		}
		if sh, ok := vc.shadow[addr.C[0]+"|"+addr.C[1]]; ok && sh.Exact && len(sh.Cands) > 0 {
			v.Cands = append([]types.Type{}, sh.Cands...)
		} else {
			v.Cands = append([]types.Type{}, vc.boxedTypes...)
			v.Guess = true
		}
	}
	return v
}

// notSelf: a slice stored inside an object does not point into that same
// object (standing heap-shape assumption, listed in the evidence).
func (vc *VC) notSelf(t types.Type, c []string, holder string) {
	switch u := t.Underlying().(type) {
	case *types.Slice:
		vc.note("standing: a slice stored in an object does not point into that same object")
		vc.assume(not(eq(c[0], holder)))
	case *types.Struct:
		off := 0
		for i := 0; i < u.NumFields(); i++ {
			n := size(u.Field(i).Type())
			vc.notSelf(u.Field(i).Type(), c[off:off+n], holder)
			off += n
		}
	}
}

func (vc *VC) toInt64(v *SV) string {
	s := v.sort()
	return vc.defS(SBV64, resize(v.C[0], s.Bits(), 64, v.signed()), "i64")
}

func (vc *VC) indexAddr(f *Frame, n *Node, in *ssa.IndexAddr) *SV {
	x := f.get(in.X, n)
	i := vc.toInt64(f.get(in.Index, n))
	switch u := in.X.Type().Underlying().(type) {
	case *types.Slice:
		vc.oblige("index", "index out of range"+f.where(in), n.Reach, app("bvult", i, x.C[2]), "@nopanic")
		es := size(u.Elem())
		if es > 1 && es&(es-1) != 0 {
			// multi-cell elements: 0 <= i < len < 2^40 gives 0 <= i*es and i*es + es <= len*es without
			// overflow - an arithmetic fact the bit-level solvers are slow to find on their own
			vc.emit(";ARITH (assert " + implies(n.Reach, and(app("bvsle", bvLit(64, 0), vc.scaleReg(i, es)),
				app("bvsle", bvAdd(vc.scaleReg(i, es), bvLit(64, int64(es))), vc.scaleReg(x.C[2], es)),
				app("bvslt", vc.scaleReg(x.C[2], es), bvLit(64, 1<<50)))) + ")")
		}
		idx := bvAdd(x.C[1], vc.scaleReg(i, es))
		return &SV{T: in.Type(), C: []string{x.C[0], vc.defS(SBV64, idx, in.Name())}, NonNil: true,
			Ext: bvAdd(x.C[1], vc.scaleReg(x.C[3], es))}
	case *types.Pointer:
		arr := u.Elem().Underlying().(*types.Array)
		vc.nilCheck(f, n, in, x)
		vc.oblige("index", "index out of range"+f.where(in), n.Reach, app("bvult", i, bvLit(64, arr.Len())), "@nopanic")
		es := size(arr.Elem())
		idx := bvAdd(x.C[1], vc.scaleReg(i, es))
		return &SV{T: in.Type(), C: []string{x.C[0], vc.defS(SBV64, idx, in.Name())}, NonNil: true}
	}
	panic(unsupported("IndexAddr on " + in.X.Type().String()))
}

func scale(i string, k int) string {
	return bvMul(i, bvLit(64, int64(k)))
}

// scaleReg gives i*k (cell offset of element i for elements of k cells). For symbolic i and k not
// a power of two the product is the uninterpreted function sclK(i) in proof queries - 64-bit
// multipliers make the bit-level solvers very slow on otherwise trivial goals - constrained by
// theorems of machine multiplication for 0 <= a, b < 2^40 and k < 2^20 (no overflow):
//   0 <= a*k < 2^60;   a < b  =>  a*k + k <= b*k;   b == a+1  =>  b*k == a*k + k.
// The discharger also runs every such query with the exact definition (and without the facts),
// accepts unsat from either and sat only from the exact one; cover queries are always exact.
func (vc *VC) scaleReg(i string, k int) string {
	if k <= 1 || k&(k-1) == 0 || k >= 1<<20 {
		return scale(i, k)
	}
	if _, _, ok := litVal(i); ok {
		return scale(i, k)
	}
	fn := fmt.Sprintf("scl%d", k)
	if !vc.eng.declared(vc, "uf:"+fn) {
		nc := len(vc.hdrCover)
		vc.emitHeader(fmt.Sprintf("(declare-fun %s ((_ BitVec 64)) (_ BitVec 64))", fn))
		vc.hdrCover = append(vc.hdrCover[:nc], fmt.Sprintf("(define-fun %s ((x!q (_ BitVec 64))) (_ BitVec 64) (bvmul x!q %s))", fn, bvLit(64, int64(k))))
		vc.note("element offsets i*k for k-cell elements (k not a power of two) are uninterpreted in proof queries, constrained by order/successor theorems; every such query is also tried with exact multiplication")
	}
	t := app(fn, i)
	for _, b := range vc.bound {
		if strings.Contains(i, b) {
			return t
		}
	}
	if vc.scaled == nil {
		vc.scaled = map[int][]string{}
	}
	for _, p := range vc.scaled[k] {
		if p == i {
			return t
		}
	}
	if len(vc.scaled[k]) >= 24 {
		return t
	}
	lim := bvLit(64, 1<<40)
	kk := bvLit(64, int64(k))
	opt := func(t string) { vc.emit(";ARITH (assert " + t + ")") }
	opt(implies(and(app("bvsle", bvLit(64, 0), i), app("bvslt", i, lim)), and(app("bvsle", bvLit(64, 0), t), app("bvslt", t, bvLit(64, 1<<60)))))
	opt(implies(eq(i, bvLit(64, 0)), eq(t, bvLit(64, 0))))
	for _, p := range vc.scaled[k] {
		tp := app(fn, p)
		opt(implies(and(app("bvsle", bvLit(64, 0), p), app("bvslt", p, i), app("bvslt", i, lim)), app("bvsle", bvAdd(tp, kk), t)))
		opt(implies(and(app("bvsle", bvLit(64, 0), i), app("bvslt", i, p), app("bvslt", p, lim)), app("bvsle", bvAdd(t, kk), tp)))
		opt(implies(eq(i, p), eq(t, tp)))
		opt(implies(eq(i, bvAdd(p, bvLit(64, 1))), eq(t, bvAdd(tp, kk))))
		opt(implies(eq(p, bvAdd(i, bvLit(64, 1))), eq(tp, bvAdd(t, kk))))
	}
	vc.scaled[k] = append(vc.scaled[k], i)
	return t
}

func (vc *VC) indexValue(f *Frame, n *Node, in *ssa.Index) *SV {
	x := f.get(in.X, n)
	i := vc.toInt64(f.get(in.Index, n))
	switch u := in.X.Type().Underlying().(type) {
	case *types.Array:
		es := size(u.Elem())
		vc.oblige("index", "index out of range"+f.where(in), n.Reach, app("bvult", i, bvLit(64, u.Len())), "@nopanic")
		out := &SV{T: u.Elem(), C: make([]string, es)}
		l := layout(u.Elem())
		for j := 0; j < es; j++ {
			t := x.C[(int(u.Len())-1)*es+j]
			for k := int(u.Len()) - 2; k >= 0; k-- {
				t = ite(eq(i, bvLit(64, int64(k))), x.C[k*es+j], t)
			}
			out.C[j] = vc.defS(l[j], t, in.Name())
		}
		return out
	}
	panic(unsupported("Index on " + in.X.Type().String()))
}

func (vc *VC) slice(f *Frame, n *Node, in *ssa.Slice) *SV {
	x := f.get(in.X, n)
	var base, off, ln, cp string
	var es int
	isStr := false
	switch u := in.X.Type().Underlying().(type) {
	case *types.Slice:
		base, off, ln, cp = x.C[0], x.C[1], x.C[2], x.C[3]
		es = size(u.Elem())
	case *types.Basic: // string
		base, off, ln, cp = x.C[0], x.C[1], x.C[2], x.C[2]
		es = 1
		isStr = true
	case *types.Pointer:
		arr := u.Elem().Underlying().(*types.Array)
		vc.nilCheck(f, n, in, x)
		base, off = x.C[0], x.C[1]
		ln = bvLit(64, arr.Len())
		cp = ln
		es = size(arr.Elem())
	default:
		panic(unsupported("Slice on " + in.X.Type().String()))
	}
	lo := bvLit(64, 0)
	if in.Low != nil {
		lo = vc.toInt64(f.get(in.Low, n))
	}
	hi := ln
	if in.High != nil {
		hi = vc.toInt64(f.get(in.High, n))
	}
	mx := cp
	if in.Max != nil {
		mx = vc.toInt64(f.get(in.Max, n))
	}
	limit := cp
	if isStr {
		limit = ln
	}
	goal := and(app("bvule", lo, hi), app("bvule", hi, mx), app("bvule", mx, limit))
	if in.Low == nil && in.High == nil && in.Max == nil {
		goal = "true"
	}
	vc.oblige("slice-bounds", "slice bounds out of range"+f.where(in), n.Reach, goal, "@nopanic")
	noff := vc.defS(SBV64, bvAdd(off, vc.scaleReg(lo, es)), "off")
	nlen := vc.defS(SBV64, bvSub(hi, lo), "len")
	if isStr {
		return &SV{T: in.Type(), C: []string{base, noff, nlen}}
	}
	ncap := vc.defS(SBV64, bvSub(mx, lo), "cap")
	return &SV{T: in.Type(), C: []string{base, noff, nlen, ncap}, NonNil: x.NonNil}
}

func (vc *VC) lookup(f *Frame, n *Node, in *ssa.Lookup) *SV {
	x := f.get(in.X, n)
	if isString(in.X.Type()) {
		i := vc.toInt64(f.get(in.Index, n))
		vc.oblige("index", "string index out of range"+f.where(in), n.Reach, app("bvult", i, x.C[2]), "@nopanic")
		return &SV{T: in.Type(), C: []string{vc.defS(SBV8, sel2(n.St.H["H8"], x.C[0], app("bvadd", x.C[1], i)), in.Name())}}
	}
	return vc.mapLookup(f, n, in, x)
}

// ----------------------------------------------------------------- operators

func (vc *VC) binop(f *Frame, n *Node, in *ssa.BinOp) *SV {
	x := f.get(in.X, n)
	y := f.get(in.Y, n)
	xt := in.X.Type()
	rt := in.Type()
	mk := func(t string) *SV {
		l := layout(rt)
		return &SV{T: rt, C: []string{vc.defS(l[0], t, in.Name())}}
	}
	switch {
	case isInteger(xt):
		s := x.sort()
		sg := isSigned(xt)
		a, b := x.C[0], y.C[0]
		switch in.Op {
		case token.ADD:
			return mk(appf("bvadd", a, b))
		case token.SUB:
			if r, ok := vc.modIdiom(a, b); ok {
				return mk(r)
			}
			return mk(appf("bvsub", a, b))
		case token.MUL:
			return mk(appf("bvmul", a, b))
		case token.QUO, token.REM:
			vc.oblige("div-zero", "integer divide by zero"+f.where(in), n.Reach, not(eq(b, bvLit(s.Bits(), 0))), "@nopanic")
			return mk(vc.divTerm(a, b, s.Bits(), sg, in.Op == token.REM))
		case token.AND:
			return mk(appf("bvand", a, b))
		case token.OR:
			return mk(appf("bvor", a, b))
		case token.XOR:
			return mk(appf("bvxor", a, b))
		case token.AND_NOT:
			return mk(app("bvand", a, app("bvnot", b)))
		case token.SHL, token.SHR:
			ys := y.sort()
			if isSigned(in.Y.Type()) {
				vc.oblige("shift-neg", "negative shift amount"+f.where(in), n.Reach, app("bvsge", b, bvLit(ys.Bits(), 0)), "@nopanic")
			}
			cnt := shiftCount(b, ys.Bits(), s.Bits())
			switch {
			case in.Op == token.SHL:
				return mk(appf("bvshl", a, cnt))
			case sg:
				return mk(app("bvashr", a, cnt))
			default:
				return mk(app("bvlshr", a, cnt))
			}
		case token.EQL:
			return mk(eq(a, b))
		case token.NEQ:
			return mk(not(eq(a, b)))
		case token.LSS, token.LEQ, token.GTR, token.GEQ:
			op := map[bool]map[token.Token]string{
				true:  {token.LSS: "bvslt", token.LEQ: "bvsle", token.GTR: "bvsgt", token.GEQ: "bvsge"},
				false: {token.LSS: "bvult", token.LEQ: "bvule", token.GTR: "bvugt", token.GEQ: "bvuge"}}[sg][in.Op]
			return mk(appf(op, a, b))
		}
	case isBool(xt):
		a, b := x.C[0], y.C[0]
		switch in.Op {
		case token.EQL:
			return mk(eq(a, b))
		case token.NEQ:
			return mk(not(eq(a, b)))
		case token.AND, token.LAND:
			return mk(and(a, b))
		case token.OR, token.LOR:
			return mk(or(a, b))
		}
	case isFloat(xt):
		s := x.sort()
		a, b := x.C[0], y.C[0]
		switch in.Op {
		case token.ADD, token.SUB, token.MUL, token.QUO:
			name := map[token.Token]string{token.ADD: "fadd", token.SUB: "fsub", token.MUL: "fmul", token.QUO: "fdiv"}[in.Op]
			return mk(app(vc.uf(name, s, s, s), a, b))
		case token.EQL, token.NEQ, token.LSS, token.LEQ, token.GTR, token.GEQ:
			name := map[token.Token]string{token.EQL: "feq", token.NEQ: "fne", token.LSS: "flt", token.LEQ: "fle", token.GTR: "fgt", token.GEQ: "fge"}[in.Op]
			return mk(app(vc.uf(name, SBool, s, s), a, b))
		}
	case isString(xt):
		switch in.Op {
		case token.EQL, token.NEQ:
			r := vc.stringEq(n.St, x, y)
			if in.Op == token.NEQ {
				r = not(r)
			}
			return mk(r)
		case token.ADD:
			return vc.stringConcat(n.St, x, y, rt)
		case token.LSS, token.LEQ, token.GTR, token.GEQ:
			return mk(vc.freshS(SBool, "strcmp"))
		}
	default:
		// pointers, interfaces, maps, funcs, structs/arrays of comparable things
		switch in.Op {
		case token.EQL, token.NEQ:
			r := vc.valueEq(x, y, xt)
			if in.Op == token.NEQ {
				r = not(r)
			}
			return mk(r)
		}
	}
	panic(unsupported(fmt.Sprintf("binop %s on %s", in.Op, xt)))
}

// shiftCount converts a shift amount of cb bits into an amount of wb bits,
// saturating so that amounts >= wb stay >= wb.
func shiftCount(c string, cb, wb int) string {
	if cb == wb {
		return c
	}
	if cb < wb {
		return resize(c, cb, wb, false)
	}
	return ite(app("bvuge", c, bvLit(cb, int64(wb))), bvLit(wb, int64(wb)), resize(c, cb, wb, false))
}

func (vc *VC) valueEq(x, y *SV, t types.Type) string {
	if isInterface(t) {
		// nil comparison is exact; otherwise identity of type and payload pointer
		if isNilSV(y) {
			return eq(x.C[0], bvLit(tidBits, 0))
		}
		if isNilSV(x) {
			return eq(y.C[0], bvLit(tidBits, 0))
		}
	}
	var cs []string
	for i := range x.C {
		cs = append(cs, eq(x.C[i], y.C[i]))
	}
	if isPointerLike(t) {
		// compare refs; cell index matters only for interior pointers
		return and(cs...)
	}
	return and(cs...)
}

func isNilSV(v *SV) bool {
	if len(v.C) == 0 {
		return false
	}
	return v.C[0] == bvLit(tidBits, 0) && v.Exact && len(v.Cands) == 0
}

func (vc *VC) convert(f *Frame, n *Node, in *ssa.Convert) *SV {
	x := f.get(in.X, n)
	from, to := in.X.Type(), in.Type()
	switch {
	case isInteger(from) && isInteger(to):
		fb, tb := x.sort().Bits(), layout(to)[0].Bits()
		return &SV{T: to, C: []string{vc.defS(layout(to)[0], resize(x.C[0], fb, tb, isSigned(from)), in.Name())}}
	case isFloat(from) && isFloat(to):
		fs, ts := x.sort(), layout(to)[0]
		if fs == ts {
			return &SV{T: to, C: x.C}
		}
		return &SV{T: to, C: []string{app(vc.uf(fmt.Sprintf("fcvt%d_%d", fs.Bits(), ts.Bits()), ts, fs), x.C[0])}}
	case isInteger(from) && isFloat(to):
		fs, ts := x.sort(), layout(to)[0]
		nm := fmt.Sprintf("i2f_%v%d_%d", isSigned(from), fs.Bits(), ts.Bits())
		return &SV{T: to, C: []string{app(vc.uf(nm, ts, fs), x.C[0])}}
	case isFloat(from) && isInteger(to):
		fs, ts := x.sort(), layout(to)[0]
		nm := fmt.Sprintf("f2i_%d_%v%d", fs.Bits(), isSigned(to), ts.Bits())
		return &SV{T: to, C: []string{app(vc.uf(nm, ts, fs), x.C[0])}}
	case isString(from) && isByteSlice(to):
		// fresh copy of the bytes
		ref := vc.copyRow(n.St, x.C[0], x.C[1], in.Name())
		return &SV{T: to, C: []string{ref, bvLit(64, 0), x.C[2], x.C[2]}, NonNil: true}
	case isByteSlice(from) && isString(to):
		ref := vc.copyRow(n.St, x.C[0], x.C[1], in.Name())
		return &SV{T: to, C: []string{ref, bvLit(64, 0), x.C[2]}}
	case isInteger(from) && isString(to), isString(from) || isString(to):
		vc.note("string conversion " + from.String() + " -> " + to.String() + " treated as an arbitrary string")
		return vc.freshSV(to, in.Name(), n.St)
	case isPointerLike(from) && isPointerLike(to):
		return &SV{T: to, C: x.C, NonNil: x.NonNil, Ext: x.Ext}
	case isPointerLike(from) && isInteger(to):
		// uintptr(unsafe.Pointer(p)): address model. Every object r occupies the addresses
		// [addr(r), addr(r)+osize(r)), one address unit per cell; the extents of distinct objects are
		// disjoint and do not wrap; a pointer obtained by indexing a slice lies inside its object
		// together with the whole capacity of that slice.
		ab, os := vc.uf("addr", SBV64, SRef), vc.uf("osize", SBV64, SRef)
		a, sz := app(ab, x.C[0]), app(os, x.C[0])
		facts := []string{app("bvult", sz, bvLit(64, 1<<41)), app("bvult", a, bvLit(64, 1<<46)), app("bvuge", a, bvLit(64, 4096))}
		if x.Ext != "" {
			facts = append(facts, app("bvsle", bvLit(64, 0), x.C[1]), app("bvslt", x.C[1], sz), app("bvsle", x.Ext, sz))
		}
		for _, r := range vc.addrRefs {
			if r == x.C[0] {
				continue
			}
			facts = append(facts, implies(not(eq(r, x.C[0])), or(app("bvule", app("bvadd", app(ab, r), app(os, r)), a), app("bvule", app("bvadd", a, sz), app(ab, r)))))
		}
		seen := false
		for _, r := range vc.addrRefs {
			if r == x.C[0] {
				seen = true
			}
		}
		if !seen {
			vc.addrRefs = append(vc.addrRefs, x.C[0])
		}
		vc.assume(implies(n.Reach, and(facts...)))
		vc.note("address model: uintptr(pointer) = addr(object) + cell index; extents of distinct objects are disjoint (used only where the code compares addresses)")
		return &SV{T: to, C: []string{vc.defS(SBV64, app("bvadd", a, x.C[1]), in.Name())}}
	}
	panic(unsupported(fmt.Sprintf("conversion %s -> %s", from, to)))
}

func isByteSlice(t types.Type) bool {
	s, ok := t.Underlying().(*types.Slice)
	if !ok {
		return false
	}
	b, ok := s.Elem().Underlying().(*types.Basic)
	return ok && (b.Kind() == types.Uint8 || b.Kind() == types.Int8)
}

// copyRow allocates a fresh byte object whose content is the row of base
// shifted by off.
func (vc *VC) copyRow(st *State, base, off, hint string) string {
	ref := vc.allocRaw(st, hint)
	row := sel(st.H["H8"], base)
	if off != bvLit(64, 0) {
		nr := vc.fresh(rowSort(SBV8), "row")
		src := row
		gen := func(i string) string { return eq(sel(nr, i), sel(src, app("bvadd", off, i))) }
		vc.assume(fmt.Sprintf("(forall ((i!q (_ BitVec 64))) (! %s :pattern ((select %s i!q))))", gen("i!q"), nr))
		vc.addHyp(gen)
		row = nr
	}
	st.H["H8"] = vc.def(heapSort(SBV8), sto(st.H["H8"], ref, row), "H8")
	return ref
}

// uf declares (once) an uninterpreted function and returns its name.
func (vc *VC) uf(name string, res Sort, args ...Sort) string {
	key := "uf:" + name
	if !vc.eng.declared(vc, key) {
		var as []string
		for _, a := range args {
			as = append(as, a.String())
		}
		vc.emit(fmt.Sprintf("(declare-fun %s (%s) %s)", name, strings.Join(as, " "), res))
	}
	return name
}

func (vc *VC) floatConst(f float64, bits int) string {
	if bits == 32 {
		return bvLit(32, int64(float32bits(float32(f))))
	}
	return bvLitBig(64, new(big.Int).SetUint64(float64bits(f)))
}

func (vc *VC) makeInterface(st *State, x *SV, it types.Type) *SV {
	t := x.T
	tid := vc.eng.typeID(t)
	if !isInterface(t) {
		seen := false
		for _, b := range vc.boxedTypes {
			if types.Identical(b, t) {
				seen = true
			}
		}
		if !seen {
			vc.boxedTypes = append(vc.boxedTypes, t)
		}
	}
	if isPointerLike(t) {
		return &SV{T: it, C: []string{tid, x.C[0], x.C[1]}, Cands: []types.Type{t}, Exact: true, Sub: x.Sub}
	}
	if isInterface(t) {
		return &SV{T: it, C: x.C, Cands: x.Cands, Exact: x.Exact, File: x.File}
	}
	// box (the payload is also remembered so that an unbox in the same VC needs no heap read)
	ref := vc.allocRaw(st, "box")
	l := layout(t)
	for i, s := range l {
		h := s.heap()
		st.H[h] = vc.def(heapSort(s), sto2(st.H[h], ref, bvLit(64, int64(i)), x.C[i]), h)
	}
	return &SV{T: it, C: []string{tid, ref, bvLit(64, 0)}, Cands: []types.Type{t}, Exact: true, Boxed: x}
}

func (vc *VC) unbox(st *State, x *SV, t types.Type) *SV {
	if x.Boxed != nil && x.Exact && len(x.Cands) == 1 && types.Identical(x.Cands[0], t) {
		return x.Boxed
	}
	if isPointerLike(t) {
		return &SV{T: t, C: []string{x.C[1], x.C[2]}, Sub: x.Sub}
	}
	l := layout(t)
	v := &SV{T: t, C: make([]string, len(l))}
	for i, s := range l {
		v.C[i] = vc.defS(s, sel2(st.H[s.heap()], x.C[1], bvLit(64, int64(i))), "unbox")
		if s == SRef {
			vc.assume(app("bvult", v.C[i], st.H["next"]))
		}
	}
	vc.constrainSV(v)
	return v
}

// implements gives the condition under which the dynamic type of x satisfies
// the interface type it.
func (vc *VC) implements(x *SV, it *types.Interface, itName string) string {
	var cases []string
	known := []string{}
	for _, c := range x.Cands {
		id := vc.eng.typeID(c)
		known = append(known, eq(x.C[0], id))
		if types.Implements(c, it) {
			cases = append(cases, eq(x.C[0], id))
		}
	}
	if x.Exact {
		return or(cases...)
	}
	if it.NumMethods() == 0 {
		return not(eq(x.C[0], bvLit(tidBits, 0)))
	}
	p := vc.uf("implements_"+sanitize(itName), SBool, STid)
	opaque := and(not(or(known...)), not(eq(x.C[0], bvLit(tidBits, 0))), app(p, x.C[0]))
	return or(append(cases, opaque)...)
}

func sanitize(s string) string {
	return strings.Map(func(r rune) rune {
		if (r >= 'a' && r <= 'z') || (r >= 'A' && r <= 'Z') || (r >= '0' && r <= '9') || r == '_' {
			return r
		}
		return '_'
	}, s)
}

func (vc *VC) typeAssert(f *Frame, n *Node, in *ssa.TypeAssert) *SV {
	x := f.get(in.X, n)
	at := in.AssertedType
	var ok string
	var val *SV
	if it, isI := at.Underlying().(*types.Interface); isI {
		if !x.Exact && len(x.Cands) == 0 && isAtom(x.C[0]) && it.NumMethods() > 0 {
			// opaque dynamic type: decided by a VC-level case split, so that no
			// control-flow merge over the two dispatch alternatives is needed
			key := x.C[0] + " implements " + at.String()
			d, have := vc.decisions[key]
			if !have {
				panic(needDecision{key: key})
			}
			p := vc.uf("implements_"+sanitize(at.String()), SBool, STid)
			if d {
				vc.assume(and(app(p, x.C[0]), not(eq(x.C[0], bvLit(tidBits, 0)))))
				ok = "true"
			} else {
				vc.assume(not(app(p, x.C[0])))
				ok = "false"
			}
		} else {
			ok = vc.def("Bool", vc.implements(x, it, at.String()), "ok")
		}
		val = &SV{T: at, C: x.C, Cands: x.Cands, Exact: x.Exact, Sub: x.Sub, File: x.File}
	} else {
		ok = vc.def("Bool", eq(x.C[0], vc.eng.typeID(at)), "ok")
		val = vc.unbox(n.St, x, at)
	}
	if !in.CommaOk {
		vc.oblige("type-assert", "type assertion may fail"+f.where(in), n.Reach, ok, "@nopanic")
		return val
	}
	// on failure the value is the zero value
	z := zeroSV(at)
	out := &SV{T: at, C: make([]string, len(val.C)), Cands: val.Cands, Exact: val.Exact, Sub: val.Sub}
	l := layout(at)
	for i := range val.C {
		out.C[i] = vc.defS(l[i], ite(ok, val.C[i], z.C[i]), "ta")
	}
	tup := &SV{T: in.Type(), Sub: []*SV{out, {T: types.Typ[types.Bool], C: []string{ok}}}}
	return tup
}

type needDecision struct {
	key    string
	values []int64 // nil: a boolean decision; otherwise one VC per value
}

func (vc *VC) panicAt(f *Frame, n *Node, in *ssa.Panic) {
	if f.depth == 0 && f.panicsC != "" {
		// contractual panic: allowed only under the declared condition and with the
		// entry heap intact
		vc.oblige("panic-cond", "explicit panic outside the declared 'panics when' condition"+f.where(in), n.Reach, f.panicsC, "@panics")
		var same []string
		for _, s := range allHeapSorts {
			h := s.heap()
			if n.St.H[h] != f.entry.H[h] {
				same = append(same, vc.heapEqOld(f.entry, n.St, s))
			}
		}
		vc.oblige("panic-unmodified", "state modified before a contractual panic"+f.where(in), n.Reach, and(same...), "@panics")
		return
	}
	vc.oblige("panic", "explicit panic reachable"+f.where(in), n.Reach, "false", "@nopanic")
}

// heapEqOld: every object that existed at entry has the same content in heap s
// (stated for the skolem object/cell of the VC).
func (vc *VC) heapEqOld(old, cur *State, s Sort) string {
	if vc.skR == "" {
		vc.skR = vc.freshS(SRef, "sk_r")
		vc.skI = vc.freshS(SBV64, "sk_i")
	}
	h := s.heap()
	return implies(app("bvult", vc.skR, old.H["next"]), eq(sel2(cur.H[h], vc.skR, vc.skI), sel2(old.H[h], vc.skR, vc.skI)))
}

func (n needDecision) Error() string { return "need decision: " + n.key }

// divTerm builds a / b or a % b. Division of a symbolic dividend by anything
// but a literal power of two is abstracted: an uninterpreted function
// constrained by the defining facts of truncated division for a >= 0, b > 0
//     0 <= q <= a,  0 <= a - q*b < b
// (all of them theorems of bit-vector arithmetic, so the abstraction only adds
// behaviours: an unsat answer carries over to the exact operator). This keeps
// 64-bit divider circuits out of the queries.
func (vc *VC) divTerm(a, b string, bits int, signed, rem bool) string {
	_, _, alit := litVal(a)
	if alit || isPow2Lit(b) {
		op := map[bool]map[bool]string{true: {false: "bvsdiv", true: "bvsrem"}, false: {false: "bvudiv", true: "bvurem"}}[signed][rem]
		return appf(op, a, b)
	}
	sg := "u"
	ge, gt, le, lt := "bvuge", "bvugt", "bvule", "bvult"
	if signed {
		sg = "s"
		ge, gt, le, lt = "bvsge", "bvsgt", "bvsle", "bvslt"
	}
	dn := fmt.Sprintf("%sdiv%d", sg, bits)
	rn := fmt.Sprintf("%srem%d", sg, bits)
	S := fmt.Sprintf("(_ BitVec %d)", bits)
	z := bvLit(bits, 0)
	if !vc.eng.declared(vc, "uf:"+dn) {
		nc := len(vc.hdrCover)
		vc.emitHeader(fmt.Sprintf("(declare-fun %s (%s %s) %s)", dn, S, S, S))
		vc.emitHeader(fmt.Sprintf("(declare-fun %s (%s %s) %s)", rn, S, S, S))
		// cover queries use the exact operators (which satisfy the axioms)
		ex := map[string]string{"sdiv": "bvsdiv", "srem": "bvsrem", "udiv": "bvudiv", "urem": "bvurem"}
		vc.hdrCover = append(vc.hdrCover[:nc],
			fmt.Sprintf("(define-fun %s ((a!q %s) (b!q %s)) %s (%s a!q b!q))", dn, S, S, S, ex[sg+"div"]),
			fmt.Sprintf("(define-fun %s ((a!q %s) (b!q %s)) %s (%s a!q b!q))", rn, S, S, S, ex[sg+"rem"]))
		vc.note("division abstraction: x/y and x%y with symbolic x are uninterpreted functions constrained by x == q*y + r, 0<=q<=x, 0<=r<y for x>=0, y>0 (theorems of machine arithmetic; sound over-approximation)")
	}
	facts := func(x, y string) string {
		q, r := app(dn, x, y), app(rn, x, y)
		// x == q*y + r holds for every x, y in two's complement truncated division
		// (also for y == 0 under SMT-LIB's total semantics); the range facts need x >= 0, y > 0
		return and(eq(x, app("bvadd", app("bvmul", q, y), r)), eq(app("bvsub", x, app("bvmul", q, y)), r),
			implies(and(app(ge, x, z), app(gt, y, z)), and(app(ge, q, z), app(le, q, x), app(ge, r, z), app(lt, r, y))))
	}
	inScope := false
	for _, bv := range vc.bound {
		if strings.Contains(a, bv) || strings.Contains(b, bv) {
			inScope = true
		}
	}
	if inScope {
		// the operands mention a quantified variable: fall back to the axiom schema
		if !vc.eng.declared(vc, "ufax:"+dn) {
			vc.emitHeaderAbs(fmt.Sprintf("(assert (forall ((a!q %s) (b!q %s)) (! %s :pattern ((%s a!q b!q)) :pattern ((%s a!q b!q)))))", S, S, facts("a!q", "b!q"), dn, rn))
		}
	} else if !vc.eng.declared(vc, "divinst:"+dn+a+"|"+b) {
		if _, _, blit := litVal(b); blit {
			vc.assume(facts(a, b))
		} else {
			// symbolic divisor: the defining facts contain a 64-bit product of two symbolic terms, which
			// makes bit-level solving very slow; they are optional lines - every query is tried without
			// them (pure congruence over the uninterpreted quotient / remainder) and with them
			vc.emit(";DIVF (assert " + facts(a, b) + ")")
		}
	}
	if rem {
		return app(rn, a, b)
	}
	return app(dn, a, b)
}

// modIdiom recognises  x - (x/y)*y  (the remainder idiom) when x/y was
// abstracted to sdivN/udivN, and returns the matching remainder term; the
// identity x - (x/y)*y == x%y holds for all x, y in two's complement
// truncated division.
func (vc *VC) modIdiom(a, b string) (string, bool) {
	m := vc.expand(b)
	if !strings.HasPrefix(m, "(bvmul ") {
		return "", false
	}
	sx := parseSexp(m)
	if len(sx.list) != 3 {
		return "", false
	}
	for k := 1; k <= 2; k++ {
		q := parseSexp(vc.expand(sx.list[k].String()))
		y := sx.list[3-k].String()
		if len(q.list) != 3 || len(q.list[0].atom) < 5 {
			continue
		}
		fn := q.list[0].atom
		same := func(u, v string) bool { return u == v || vc.expand(u) == vc.expand(v) }
		if !same(q.list[1].String(), a) || !same(q.list[2].String(), y) {
			continue
		}
		switch {
		case fn == "bvsdiv":
			return app("bvsrem", q.list[1].String(), q.list[2].String()), true
		case fn == "bvudiv":
			return app("bvurem", q.list[1].String(), q.list[2].String()), true
		case strings.HasPrefix(fn, "sdiv") || strings.HasPrefix(fn, "udiv"):
			return app(fn[:1]+"rem"+fn[4:], q.list[1].String(), q.list[2].String()), true
		}
	}
	return "", false
}

var traceOn = os.Getenv("GOVC_TRACE") == "2"

func (vc *VC) entryOr(st *State) *State {
	if vc.entry != nil {
		return vc.entry
	}
	return st
}

package main

import (
	"golang.org/x/tools/go/ssa"
	"go/types"
	"strings"
)

// Models for sync.Pool, io.CopyN, bytes.NewReader / bytes.Reader, compress/zlib readers.

const (
	aPool   = "sync.Pool.Get (assumed, library docs + the pool's New function): returns some object of the type New creates, in an arbitrary state (a *bytes.Buffer with arbitrary content for bufPool); Put has no observable effect"
	aCopyN  = "io.CopyN(dst, src, n) (assumed, io docs): copies w bytes, 0 <= w <= n, in order from src to dst; err == nil iff w == n; for n <= 0 nothing is copied"
	aBRead  = "bytes.NewReader(b) (assumed, library docs): a fresh stream whose content is b"
	aZlibR  = "compress/zlib.NewReader(r) (assumed): a fresh stream whose content is inflate(rest of r) (uninterpreted), consuming an unspecified part of r; Close has no effect on other objects"
	aCloser = "io.Closer.Close on a value of unknown dynamic type: assumed total, arbitrary error, no effect on the memory and streams the verified code can observe"
)

func (e *Engine) stdType(pkg, name string) types.Type {
	for _, p := range e.prog.AllPackages() {
		if p.Pkg.Path() == pkg {
			if o := p.Pkg.Scope().Lookup(name); o != nil {
				return o.Type()
			}
		}
	}
	return nil
}

func (e *Engine) globalName(ref string) string {
	v, _, ok := litVal(ref)
	if !ok {
		return ""
	}
	for k, id := range globalIDs {
		if int64(id) == v.Int64() {
			return k
		}
	}
	return ""
}

func init() {
	models["(*sync.Pool).Get"] = func(c *callCtx) *SV {
		vc, st := c.vc, c.n.St
		vc.note(aPool)
		name := vc.eng.globalName(c.args[0].C[0])
		anyT := c.fn.Signature.Results().At(0).Type()
		switch {
		case strings.HasSuffix(name, "bufPool"):
			bt := vc.eng.stdType("bytes", "Buffer")
			if bt == nil {
				break
			}
			pt := types.NewPointer(bt)
			ref := vc.allocRaw(st, "pooled")
			wl, rd := sel(st.H["Wlen"], ref), sel(st.H["Gh"], ref)
			vc.assume(implies(c.n.Reach, and(app("bvsle", bvLit(64, 0), rd), app("bvsle", rd, wl), app("bvslt", wl, bvLit(64, 1<<40)))))
			st.H["Wfail"] = vc.def(stateSorts["Wfail"], sto(st.H["Wfail"], ref, "false"), "Wfail")
			return &SV{T: anyT, C: []string{vc.eng.typeID(pt), ref, bvLit(64, 0)}, Cands: []types.Type{pt}, Exact: true}
		case strings.HasSuffix(name, "zlibPool"):
			zt := vc.eng.stdType("compress/zlib", "Writer")
			if zt == nil {
				break
			}
			pt := types.NewPointer(zt)
			ref := vc.allocRaw(st, "pooledzw")
			return &SV{T: anyT, C: []string{vc.eng.typeID(pt), ref, bvLit(64, 0)}, Cands: []types.Type{pt}, Exact: true}
		}
		return vc.freshSV(anyT, "pooled", st)
	}
	modelEffects["(*sync.Pool).Get"] = []string{"next", "Wfail"}
	models["(*sync.Pool).Put"] = func(c *callCtx) *SV {
		c.vc.note(aPool)
		return nil
	}
	modelEffects["(*sync.Pool).Put"] = []string{}

	ifaceModels["Close"] = func(c *callCtx) (*SV, bool) {
		if len(c.args) != 0 {
			return nil, false
		}
		c.vc.note(aCloser)
		return c.vc.freshError(c.n.St, "closeerr"), true
	}
	ifaceEffects["Close"] = []string{"next"}

	models["io.CopyN"] = func(c *callCtx) *SV {
		vc, st := c.vc, c.n.St
		vc.note(aCopyN)
		dst, src, n := c.args[0], c.args[1], c.args[2].C[0]
		discard := false
		if call, ok := c.in.(ssa.CallInstruction); ok && len(call.Common().Args) == 3 {
			if u, ok := call.Common().Args[0].(*ssa.UnOp); ok {
				if g, ok := u.X.(*ssa.Global); ok && g.String() == "io.Discard" {
					discard = true // io.Discard: the copied bytes go nowhere
				}
			}
		}
		dref, isBuf, ok1 := "", true, true
		if !discard {
			dref, isBuf, ok1 = c.resolveRW(dst, "Write", 0)
		}
		sref, _, ok2 := c.resolveRW(src, "Read", 0)
		res := c.fn.Signature.Results()
		if !ok1 || !ok2 || !isBuf {
			vc.note("io.CopyN between objects that cannot be resolved: havoc")
			vc.havocAll(st, "copyn")
			return vc.freshResults(c.fn.Signature, st, "copyn")
		}
		vc.saneStream(sref)
		w := vc.freshS(SBV64, "ncopied")
		err := vc.freshError(st, "cperr")
		pos := vc.defS(SBV64, sel(st.H["Spos"], sref), "spos")
		vc.assume(implies(c.n.Reach, and(app("bvsle", bvLit(64, 0), w),
			implies(app("bvsle", n, bvLit(64, 0)), and(eq(w, bvLit(64, 0)), not(isErr(err)))),
			implies(app("bvsgt", n, bvLit(64, 0)), and(app("bvsle", w, n), eq(not(isErr(err)), eq(w, n)))),
			app("bvsle", app("bvadd", pos, w), sel("Send", sref)))))
		if !discard {
			wl := vc.defS(SBV64, sel(st.H["Wlen"], dref), "wlen")
			row := vc.copyCells(SBV8, sel(st.H["Wout"], dref), wl, sel("Sin", sref), pos, w, -1)
			st.H["Wout"] = vc.def(stateSorts["Wout"], sto(st.H["Wout"], dref, row), "Wout")
			st.H["Wlen"] = vc.def(stateSorts["Wlen"], sto(st.H["Wlen"], dref, app("bvadd", wl, w)), "Wlen")
		}
		st.H["Spos"] = vc.def(stateSorts["Spos"], sto(st.H["Spos"], sref, app("bvadd", pos, w)), "Spos")
		c.setFail(sref, isErr(err))
		return tupleSV(res, &SV{T: types.Typ[types.Int64], C: []string{w}}, err)
	}
	modelEffects["io.CopyN"] = []string{"Wout", "Wlen", "Spos", "Sfail", "next"}

	models["bytes.NewReader"] = func(c *callCtx) *SV {
		vc, st := c.vc, c.n.St
		vc.note(aBRead)
		b := c.args[0]
		s := vc.allocRaw(st, "breader")
		src := sel(st.H["H8"], b.C[0])
		off := b.C[1]
		gen := func(i string) string { return eq(sel2("Sin", s, i), sel(src, app("bvadd", off, i))) }
		vc.assume("(forall ((i!q (_ BitVec 64))) (! " + gen("i!q") + " :pattern ((select (select Sin " + s + ") i!q))))")
		vc.addHyp(gen)
		vc.assume(eq(sel("Send", s), b.C[2]))
		st.H["Spos"] = vc.def(stateSorts["Spos"], sto(st.H["Spos"], s, bvLit(64, 0)), "Spos")
		st.H["Sfail"] = vc.def(stateSorts["Sfail"], sto(st.H["Sfail"], s, "false"), "Sfail")
		vc.eng.declared(vc, "sane:"+s)
		return &SV{T: c.fn.Signature.Results().At(0).Type(), C: []string{s, bvLit(64, 0)}, NonNil: true}
	}
	modelEffects["bytes.NewReader"] = []string{"Spos", "Sfail", "next"}

	models["compress/zlib.NewReader"] = func(c *callCtx) *SV {
		vc, st := c.vc, c.n.St
		vc.note(aZlibR)
		r := c.args[0]
		src, _, ok := c.resolveRW(r, "Read", 0)
		res := c.fn.Signature.Results()
		if !ok {
			vc.havocAll(st, "zlibr")
			return vc.freshResults(c.fn.Signature, st, "zlibr")
		}
		vc.saneStream(src)
		vc.eng.useSpec(vc, "inflate_row")
		vc.eng.useSpec(vc, "inflate_len")
		pos := vc.defS(SBV64, sel(st.H["Spos"], src), "spos")
		s2 := vc.allocRaw(st, "zreader")
		vc.assume(eq(sel("Sin", s2), app("inflate_row", sel("Sin", src), pos, sel("Send", src))))
		vc.assume(and(eq(sel("Send", s2), app("inflate_len", sel("Sin", src), pos, sel("Send", src))),
			app("bvsle", bvLit(64, 0), sel("Send", s2)), app("bvslt", sel("Send", s2), bvLit(64, 1<<40))))
		st.H["Spos"] = vc.def(stateSorts["Spos"], sto(st.H["Spos"], s2, bvLit(64, 0)), "Spos")
		st.H["Sfail"] = vc.def(stateSorts["Sfail"], sto(st.H["Sfail"], s2, "false"), "Sfail")
		vc.eng.declared(vc, "sane:"+s2)
		// the compressed source is consumed by an unspecified amount
		np := vc.freshS(SBV64, "zpos")
		vc.assume(implies(c.n.Reach, and(app("bvsle", pos, np), app("bvsle", np, sel("Send", src)))))
		st.H["Spos"] = vc.def(stateSorts["Spos"], sto(st.H["Spos"], src, np), "Spos")
		err := vc.freshError(st, "zerr")
		c.setFail(src, isErr(err))
		rc := vc.freshSV(res.At(0).Type(), "zr", st)
		rc.C[1] = s2
		vc.assume(implies(not(isErr(err)), not(eq(rc.C[0], bvLit(tidBits, 0)))))
		return tupleSV(res, rc, err)
	}
	modelEffects["compress/zlib.NewReader"] = []string{"Spos", "Sfail", "next"}
}

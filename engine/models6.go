package main

import (
	"fmt"
	"go/types"
	"strings"
)

// Models for the login digest (C18): crypto/sha1 as an uninterpreted digest, hexadecimal
// rendering as a string without '-' characters, strings.TrimLeft as "some suffix".

type shaCall struct{ out string } // 160-bit value of the last Sum result

const aSha = "assumed: crypto/sha1 New/Write/Sum - Sum(nil) returns 20 arbitrary bytes (the digest is uninterpreted)"
const aHex = "assumed: hex.EncodeToString / fmt.Sprintf(\"%x\", bytes) return a fresh string of lower-case hexadecimal digits (in particular no '-'); strings.TrimLeft returns a suffix of its argument"

func (vc *VC) freshByteObject(st *State, n int64, hint string) (string, string) {
	ref := vc.allocRaw(st, hint)
	row := vc.fresh(rowSort(SBV8), hint+"row")
	st.H["H8"] = vc.def(heapSort(SBV8), sto(st.H["H8"], ref, row), "H8")
	return ref, row
}

func init() {
	models["crypto/sha1.New"] = func(c *callCtx) *SV {
		vc, st := c.vc, c.n.St
		vc.note(aSha)
		h := vc.freshSV(c.fn.Signature.Results().At(0).Type(), "sha1", st)
		vc.assume(and(not(eq(h.C[0], bvLit(tidBits, 0))), not(eq(h.C[1], bvLit(refBits, 0)))))
		return h
	}
	ifaceModels["Sum"] = func(c *callCtx) (*SV, bool) {
		if len(c.args) != 1 || !isByteSlice(c.args[0].T) {
			return nil, false
		}
		vc, st := c.vc, c.n.St
		vc.note(aSha)
		b := c.args[0]
		// only Sum(nil) / Sum of an empty slice is modelled precisely
		ref, row := vc.freshByteObject(st, 20, "digest")
		var parts []string
		for k := 0; k < 20; k++ {
			parts = append(parts, sel(row, bvLit(64, int64(k))))
		}
		vc.lastSha = &shaCall{out: vc.def("(_ BitVec 160)", app("concat", parts...), "shaout")}
		ln := vc.defS(SBV64, bvAdd(b.C[2], bvLit(64, 20)), "sumlen")
		if _, _, lit := litVal(b.C[2]); lit {
			ln = bvAdd(b.C[2], bvLit(64, 20))
		}
		vc.assume(implies(c.n.Reach, eq(b.C[2], bvLit(64, 0)))) // callers under contract pass nil
		vc.note("assumed: hash.Sum is called with an empty prefix (Sum(nil))")
		return &SV{T: c.args[0].T, C: []string{ref, bvLit(64, 0), ln, ln}, NonNil: true}, true
	}
	hexString := func(c *callCtx, src *SV) *SV {
		vc, st := c.vc, c.n.St
		vc.note(aHex)
		ref, row := vc.freshByteObject(st, 0, "hex")
		ln := vc.defS(SBV64, app("bvshl", src.C[2], bvLit(64, 1)), "hexlen")
		gen := func(j string) string {
			return and(app("bvuge", sel(row, j), bvLit(8, 48)), app("bvule", sel(row, j), bvLit(8, 102)))
		}
		vc.assume(fmt.Sprintf("(forall ((j!q (_ BitVec 64))) (! %s :pattern ((select %s j!q))))", gen("j!q"), row))
		vc.addHyp(gen)
		// ghost capture of a 20-byte argument
		{
			// ghost capture: the first 20 bytes of the argument (meaningful for 20-byte digests)
			var parts []string
			srow := sel(st.H["H8"], src.C[0])
			for k := 0; k < 20; k++ {
				parts = append(parts, sel(srow, cellIdx(src.C[1], k)))
			}
			vc.lastHex = vc.def("(_ BitVec 160)", app("concat", parts...), "hexin")
		}
		return &SV{T: types.Typ[types.String], C: []string{ref, bvLit(64, 0), ln}}
	}
	models["encoding/hex.EncodeToString"] = func(c *callCtx) *SV { return hexString(c, c.args[0]) }
	oldSprintf := models["fmt.Sprintf"]
	models["fmt.Sprintf"] = func(c *callCtx) *SV {
		// fmt.Sprintf("%x", b) with b a byte slice
		if len(c.args) == 2 {
			if v, _, ok := litVal(c.args[0].C[0]); ok && v.IsInt64() && constStrings[int(v.Int64())] == "%x" {
				if arg := c.vc.variadicBytes(c.n.St, c.args[1]); arg != nil {
					return hexString(c, arg)
				}
			}
		}
		return oldSprintf(c)
	}
	models["strings.TrimLeft"] = func(c *callCtx) *SV {
		vc := c.vc
		vc.note(aHex)
		s := c.args[0]
		t := vc.freshS(SBV64, "trim")
		vc.assume(implies(c.n.Reach, and(app("bvsle", bvLit(64, 0), t), app("bvsle", t, s.C[2]))))
		return &SV{T: s.T, C: []string{s.C[0], vc.defS(SBV64, app("bvadd", s.C[1], t), "toff"), vc.defS(SBV64, app("bvsub", s.C[2], t), "tlen")}}
	}
}

// constStrings: string constants by their object id (see stringConst).
var constStrings = map[int]string{}

// variadicBytes: the byte slice boxed as the single element of a variadic []any argument built in
// this VC (nil if it cannot be determined).
func (vc *VC) variadicBytes(st *State, va *SV) *SV {
	if va == nil || len(va.C) < 3 {
		return nil
	}
	if n := constLen(va.C[2]); n != 1 {
		return nil
	}
	key := va.C[0] + "|" + va.C[1]
	el := vc.shadow[key]
	if el == nil {
		for k, v := range vc.shadow {
			if strings.HasPrefix(k, va.C[0]+"|") {
				el = v
			}
		}
	}
	if el == nil || el.Boxed == nil || !isByteSlice(el.Boxed.T) {
		return nil
	}
	return el.Boxed
}

package main

import (
	"fmt"
	"go/types"
)

// Ghost files. A value whose static type has a Seek method (io.ReadWriteSeeker,
// *os.File ...) denotes a file f (its payload ref) with content Fdata[f],
// length Flen[f] and cursor Fpos[f].

const (
	aFile = "files (assumed, io / os docs): Seek(off, 0) sets the cursor to off, Seek(off, 2) to length+off, and returns it (or an error, cursor unchanged); Write writes the first n bytes of p at the cursor and advances it, n < len(p) implies an error; WriteAt writes at the given offset without moving the cursor; Read returns 0 < n <= len(p) bytes from the cursor (or an error / EOF) and advances it; writes beyond the end extend the file; nothing else changes the content"
	aLimit = "io.LimitReader (library source, inlined) wraps a reader in *io.LimitedReader{R, N}; reading n bytes through it requires n <= N and decreases N"
)

type byteSource struct {
	kind  string // "stream" or "file"
	ref   string
	limit *SV // pointer to an io.LimitedReader, or nil
}

// source resolves a reader value to the stream or file it reads from.
func (c *callCtx) source(r *SV, depth int) (byteSource, bool) {
	vc, st := c.vc, c.n.St
	if depth > 4 {
		return byteSource{}, false
	}
	if isInterface(r.T) {
		if r.Exact && len(r.Cands) == 1 {
			return c.source(vc.unbox(st, r, r.Cands[0]), depth+1)
		}
		if !r.Exact {
			// possible known dynamic types must themselves be identified by their payload ref (bytes.Reader)
			alts := []string{eq(r.C[0], bvLit(tidBits, 0)), app("bvuge", r.C[0], bvLit(tidBits, 0x8000))}
			for _, ct := range r.Cands {
				if r.Guess {
					break // a reader read from memory: of a type outside the repository (standing assumption)
				}
				if it, isI := r.T.Underlying().(*types.Interface); isI && !types.Implements(ct, it) {
					continue // cannot be the dynamic type of a value of this static type
				}
				if ct.String() != "*bytes.Reader" {
					return byteSource{}, false
				}
				alts = append(alts, eq(r.C[0], vc.eng.typeID(ct)))
			}
			vc.assume(implies(c.n.Reach, or(alts...)))
			vc.note("standing: reader/writer values stored in objects are of types outside the repository (they obey the io contracts)")
			if r.File {
				return byteSource{kind: "file", ref: r.C[1]}, true
			}
			return byteSource{kind: "stream", ref: r.C[1]}, true
		}
		return byteSource{}, false
	}
	p, isPtr := r.T.Underlying().(*types.Pointer)
	if !isPtr {
		return byteSource{}, false
	}
	switch p.Elem().String() {
	case "bytes.Reader":
		return byteSource{kind: "stream", ref: r.C[0]}, true
	case "io.LimitedReader":
		vc.note(aLimit)
		rt := p.Elem().Underlying().(*types.Struct).Field(0).Type()
		inner := vc.load(st, &SV{T: types.NewPointer(rt), C: []string{r.C[0], r.C[1]}}, rt, "limR")
		src, ok := c.source(inner, depth+1)
		if !ok || src.limit != nil {
			return byteSource{}, false
		}
		src.limit = r
		return src, true
	}
	if stt, isStruct := p.Elem().Underlying().(*types.Struct); isStruct {
		off := 0
		for i := 0; i < stt.NumFields(); i++ {
			f := stt.Field(i)
			if f.Embedded() && hasMethod(f.Type(), "Read") {
				vc.note(aEmbedRW)
				fv := vc.load(st, &SV{T: types.NewPointer(f.Type()), C: []string{r.C[0], cellIdx(r.C[1], off)}}, f.Type(), "emb")
				return c.source(fv, depth+1)
			}
			off += size(f.Type())
		}
	}
	return byteSource{}, false
}

// readFull models io.ReadFull(src, dst): n bytes are read, err == nil iff n == len(dst).
func (c *callCtx) readFull(src byteSource, dst *SV) (string, *SV) {
	vc, st := c.vc, c.n.St
	nn := vc.freshS(SBV64, "nfull")
	err := vc.freshError(st, "rferr")
	vc.assume(implies(c.n.Reach, and(app("bvsle", bvLit(64, 0), nn), app("bvsle", nn, dst.C[2]), eq(not(isErr(err)), eq(nn, dst.C[2])))))
	if src.limit != nil {
		// field N is the 4th cell of LimitedReader{R Reader (3 cells), N int64}
		np := &SV{C: []string{src.limit.C[0], cellIdx(src.limit.C[1], 3)}}
		N := vc.defS(SBV64, sel2(st.H["H64"], np.C[0], np.C[1]), "limN")
		vc.assume(implies(c.n.Reach, or(app("bvsle", nn, N), app("bvsle", nn, bvLit(64, 0)))))
		// a limit that is exhausted before dst is full yields an error (EOF)
		st.H["H64"] = vc.def(heapSort(SBV64), sto2(st.H["H64"], np.C[0], np.C[1], app("bvsub", N, nn)), "H64")
	}
	switch src.kind {
	case "stream":
		vc.note(aReadFull)
		c.streamRead(src.ref, dst, nn, constLen(dst.C[2]))
		c.setFail(src.ref, isErr(err))
	case "file":
		vc.note(aFile)
		f := src.ref
		vc.saneFile(f)
		pos := vc.defS(SBV64, sel(st.H["Fpos"], f), "fpos")
		vc.assume(implies(c.n.Reach, or(app("bvsle", app("bvadd", pos, nn), sel(st.H["Flen"], f)), eq(nn, bvLit(64, 0)))))
		dstRow := sel(st.H["H8"], dst.C[0])
		row := vc.copyCells(SBV8, dstRow, dst.C[1], sel(st.H["Fdata"], f), pos, nn, constLen(dst.C[2]))
		st.H["H8"] = vc.def(heapSort(SBV8), sto(st.H["H8"], dst.C[0], row), "H8")
		st.H["Fpos"] = vc.def(stateSorts["Fpos"], sto(st.H["Fpos"], f, app("bvadd", pos, nn)), "Fpos")
	}
	return nn, err
}

func (vc *VC) saneFile(f string) {
	if vc.entry == nil || vc.eng.declared(vc, "sanef:"+f) {
		return
	}
	l, p := sel(vc.entry.H["Flen"], f), sel(vc.entry.H["Fpos"], f)
	vc.assume(and(app("bvsle", bvLit(64, 0), p), app("bvsle", bvLit(64, 0), l), app("bvslt", l, bvLit(64, 1<<40)), app("bvslt", p, bvLit(64, 1<<40))))
}

// fileWrite writes cnt bytes of src (byte slice value) into file f at offset pos.
func (c *callCtx) fileWrite(f, pos string, src *SV, cnt string, maxN int, moveCursor bool) {
	vc, st := c.vc, c.n.St
	vc.note(aFile)
	vc.saneFile(f)
	// crash-isolation guard of the function under verification
	if fc := vc.Contract; fc != nil && fc.Guard != nil && vc.guardEnv != nil {
		a := vc.freshS(SBV64, "sk_a")
		genv := vc.guardEnv.with(fc.GuardVar, ghostBV(64, true, a))
		goal := implies(and(app("bvsle", pos, a), app("bvslt", a, app("bvadd", pos, src.C[2]))), genv.evalGoal(fc.Guard.E))
		vc.oblige("write-guard", "a physical file write touches an offset outside the declared guard ("+fc.Guard.Text+")"+c.where(), c.n.Reach, goal, "@guard")
	}
	row := vc.copyCells(SBV8, sel(st.H["Fdata"], f), pos, sel(st.H["H8"], src.C[0]), src.C[1], cnt, maxN)
	st.H["Fdata"] = vc.def(stateSorts["Fdata"], sto(st.H["Fdata"], f, row), "Fdata")
	end := vc.defS(SBV64, app("bvadd", pos, cnt), "wend")
	oldLen := sel(st.H["Flen"], f)
	st.H["Flen"] = vc.def(stateSorts["Flen"], sto(st.H["Flen"], f, ite(app("bvsgt", end, oldLen), end, oldLen)), "Flen")
	if moveCursor {
		st.H["Fpos"] = vc.def(stateSorts["Fpos"], sto(st.H["Fpos"], f, end), "Fpos")
	}
}

func init() {
	ifaceModels["Seek"] = func(c *callCtx) (*SV, bool) {
		if len(c.args) != 2 {
			return nil, false
		}
		vc, st := c.vc, c.n.St
		vc.note(aFile)
		f := c.recv.C[1]
		vc.saneFile(f)
		off, whence := c.args[0].C[0], c.args[1].C[0]
		err := vc.freshError(st, "seekerr")
		cur := sel(st.H["Fpos"], f)
		target := ite(eq(whence, bvLit(64, 0)), off, ite(eq(whence, bvLit(64, 2)), app("bvadd", sel(st.H["Flen"], f), off), app("bvadd", cur, off)))
		np := vc.defS(SBV64, ite(isErr(err), cur, target), "fpos")
		// a seek to a negative offset fails
		vc.assume(implies(app("bvslt", target, bvLit(64, 0)), isErr(err)))
		st.H["Fpos"] = vc.def(stateSorts["Fpos"], sto(st.H["Fpos"], f, np), "Fpos")
		return tupleSV(c.method.Type().(*types.Signature).Results(), &SV{T: types.Typ[types.Int64], C: []string{np}}, err), true
	}
	ifaceEffects["Seek"] = []string{"Fpos", "next"}
	ifaceModels["WriteAt"] = func(c *callCtx) (*SV, bool) {
		if len(c.args) != 2 || !isByteSlice(c.args[0].T) {
			return nil, false
		}
		vc, st := c.vc, c.n.St
		f := c.recv.C[1]
		p, off := c.args[0], c.args[1].C[0]
		nn := vc.freshS(SBV64, "nwritten")
		err := vc.freshError(st, "werr")
		vc.assume(implies(c.n.Reach, and(app("bvsle", bvLit(64, 0), nn), app("bvsle", nn, p.C[2]), implies(app("bvslt", nn, p.C[2]), isErr(err)))))
		c.fileWrite(f, off, p, nn, constLen(p.C[2], p.C[3]), false)
		return tupleSV(c.method.Type().(*types.Signature).Results(), &SV{T: intType, C: []string{nn}}, err), true
	}
	ifaceEffects["WriteAt"] = []string{"Fdata", "Flen", "next"}

	// Write / Read on a file value
	streamWrite := ifaceModels["Write"]
	ifaceModels["Write"] = func(c *callCtx) (*SV, bool) {
		if !c.recv.File {
			return streamWrite(c)
		}
		if len(c.args) != 1 || !isByteSlice(c.args[0].T) {
			return nil, false
		}
		vc, st := c.vc, c.n.St
		f := c.recv.C[1]
		p := c.args[0]
		nn := vc.freshS(SBV64, "nwritten")
		err := vc.freshError(st, "werr")
		vc.assume(implies(c.n.Reach, and(app("bvsle", bvLit(64, 0), nn), app("bvsle", nn, p.C[2]), implies(app("bvslt", nn, p.C[2]), isErr(err)))))
		vc.saneFile(f)
		pos := vc.defS(SBV64, sel(st.H["Fpos"], f), "fpos")
		c.fileWrite(f, pos, p, nn, constLen(p.C[2], p.C[3]), true)
		return tupleSV(c.method.Type().(*types.Signature).Results(), &SV{T: intType, C: []string{nn}}, err), true
	}
	ifaceEffects["Write"] = []string{"Wout", "Wlen", "Wfail", "Fdata", "Flen", "Fpos", "next"}

	// io.ReadFull through the generic source resolution
	models["io.ReadFull"] = func(c *callCtx) *SV {
		vc := c.vc
		r, buf := c.args[0], c.args[1]
		vc.oblige("nil-invoke", "io.ReadFull on a nil reader"+c.where(), c.n.Reach, not(eq(r.C[0], bvLit(tidBits, 0))), "@nopanic")
		src, ok := c.source(r, 0)
		if !ok {
			vc.note("io.ReadFull from a reader that cannot be resolved: havoc")
			vc.havocAll(c.n.St, "readfull")
			return vc.freshResults(c.fn.Signature, c.n.St, "rf")
		}
		nn, err := c.readFull(src, buf)
		return tupleSV(c.fn.Signature.Results(), &SV{T: intType, C: []string{nn}}, err)
	}
	modelEffects["io.ReadFull"] = []string{"H8", "H64", "Spos", "Sfail", "Fpos", "next"}
	modelEffects["encoding/binary.Read"] = []string{"H8", "H16", "H32", "H64", "Spos", "Sfail", "Fpos", "next"}
	modelEffects["encoding/binary.Write"] = []string{"H8", "Wout", "Wlen", "Wfail", "Fdata", "Flen", "Fpos", "next"}
	models["time.Now"] = func(c *callCtx) *SV {
		c.vc.note("time.Now / Time.Unix: an arbitrary time, no side effects")
		return c.vc.freshSV(c.fn.Signature.Results().At(0).Type(), "now", nil)
	}
	modelEffects["time.Now"] = []string{}
	models["(time.Time).Unix"] = func(c *callCtx) *SV {
		return c.vc.freshSV(types.Typ[types.Int64], "unix", nil)
	}
	modelEffects["(time.Time).Unix"] = []string{}
	_ = fmt.Sprint
}

const aBlock = "cipher.Block.Encrypt(dst, src) (assumed, crypto/cipher docs): requires len(src) >= 16 and len(dst) >= 16 and dst, src either identical or non-overlapping in their first 16 bytes; writes aesE(block, src[0:16]) to dst[0:16] and nothing else; BlockSize() is 16"

func init() {
	ifaceModels["Encrypt"] = func(c *callCtx) (*SV, bool) {
		if len(c.args) != 2 || !isByteSlice(c.args[0].T) || !isByteSlice(c.args[1].T) {
			return nil, false
		}
		vc, st := c.vc, c.n.St
		vc.note(aBlock)
		vc.eng.useSpec(vc, "aesE")
		dst, src := c.args[0], c.args[1]
		vc.oblige("block-len", "cipher.Block.Encrypt: input or output shorter than a block"+c.where(), c.n.Reach,
			and(app("bvsge", dst.C[2], bvLit(64, 16)), app("bvsge", src.C[2], bvLit(64, 16))), "@nopanic")
		// inexact overlap panics
		same := eq(dst.C[0], src.C[0])
		d0, s0 := dst.C[1], src.C[1]
		okOverlap := or(not(same), eq(d0, s0), app("bvsle", bvAdd(d0, bvLit(64, 16)), s0), app("bvsle", bvAdd(s0, bvLit(64, 16)), d0))
		vc.oblige("block-overlap", "cipher.Block.Encrypt: output and input overlap inexactly"+c.where(), c.n.Reach, okOverlap, "@nopanic")
		srcRow := sel(st.H["H8"], src.C[0])
		var parts []string
		for k := 0; k < 16; k++ {
			parts = append(parts, sel(srcRow, cellIdx(src.C[1], k)))
		}
		x := vc.defS(SBV128, app("concat", parts...), "blk")
		y := vc.defS(SBV128, app("aesE", c.recv.C[1], x), "enc")
		row := sel(st.H["H8"], dst.C[0])
		for k := 0; k < 16; k++ {
			hi := 127 - 8*k
			row = sto(row, cellIdx(dst.C[1], k), fmt.Sprintf("((_ extract %d %d) %s)", hi, hi-7, y))
		}
		st.H["H8"] = vc.def(heapSort(SBV8), sto(st.H["H8"], dst.C[0], row), "H8")
		return nil, true
	}
	ifaceEffects["Encrypt"] = []string{"H8"}
	ifaceModels["BlockSize"] = func(c *callCtx) (*SV, bool) {
		c.vc.note(aBlock)
		return &SV{T: intType, C: []string{bvLit(64, 16)}}, true
	}
	ifaceEffects["BlockSize"] = []string{}
}

package main

import (
	"fmt"
	"go/types"
	"os"
	"path/filepath"
	"sort"
	"strings"

	"golang.org/x/tools/go/packages"
	"golang.org/x/tools/go/ssa"
	"golang.org/x/tools/go/ssa/ssautil"
)

const modulePath = "github.com/Tnze/go-mc"

type Engine struct {
	repo      string
	prog      *ssa.Program
	pkgs      map[string]*ssa.Package // by path
	contracts *ContractSet
	spec      *SpecLib
	tids      map[string]int
	tidTypes  []types.Type
	used      map[*VC]map[string]bool // spec functions / declarations per VC
	usedFC    map[string]bool
	loadS     float64
	cwCache   map[string][]types.Type
}

func loadEngine(repo string, patterns []string, specDir string) (*Engine, error) {
	cfg := &packages.Config{
		Mode:       packages.LoadAllSyntax,
		Dir:        repo,
		BuildFlags: []string{"-tags=verif"},
		Env:        append(os.Environ(), "GOFLAGS=-mod=mod", "GOPROXY=off", "GOSUMDB=off", "GOTOOLCHAIN=local"),
	}
	pkgs, err := packages.Load(cfg, patterns...)
	if err != nil {
		return nil, err
	}
	var errs []string
	packages.Visit(pkgs, nil, func(p *packages.Package) {
		for _, e := range p.Errors {
			errs = append(errs, e.Error())
		}
	})
	if len(errs) > 0 {
		return nil, fmt.Errorf("BUILD-FAILED: the repository does not type-check:\n%s", strings.Join(errs, "\n"))
	}
	prog, roots := ssautil.AllPackages(pkgs, ssa.InstantiateGenerics|ssa.GlobalDebug)
	// function bodies are built per package on demand (the requested packages
	// now, callees' packages when they are first inlined)
	for _, p := range roots {
		if p != nil {
			p.Build()
		}
	}
	e := &Engine{repo: repo, prog: prog, pkgs: map[string]*ssa.Package{}, tids: map[string]int{},
		used: map[*VC]map[string]bool{}, usedFC: map[string]bool{}}
	for _, p := range prog.AllPackages() {
		e.pkgs[p.Pkg.Path()] = p
	}
	e.spec, err = loadSpecs(specDir)
	if err != nil {
		return nil, err
	}
	e.contracts, err = loadContracts(repo, func(dir string) string {
		rel, _ := filepath.Rel(repo, dir)
		if rel == "." {
			return modulePath
		}
		return modulePath + "/" + filepath.ToSlash(rel)
	})
	if err != nil {
		return nil, err
	}
	return e, nil
}

func (e *Engine) typeID(t types.Type) string {
	k := t.String()
	id, ok := e.tids[k]
	if !ok {
		id = len(e.tids) + 1
		e.tids[k] = id
		e.tidTypes = append(e.tidTypes, t)
	}
	return bvLit(tidBits, int64(id))
}

func (e *Engine) declared(vc *VC, key string) bool {
	m := e.used[vc]
	if m == nil {
		m = map[string]bool{}
		e.used[vc] = m
	}
	if m[key] {
		return true
	}
	m[key] = true
	return false
}

func (e *Engine) useSpec(vc *VC, name string) {
	e.declared(vc, "spec:"+name)
}

func (e *Engine) noteContractUse(fc *FuncContract) { e.usedFC[fc.Pkg+"::"+fc.Key] = true }

// header returns the SMT-LIB prelude needed by vc: global declarations plus the
// closure of the spec functions it used.
func (e *Engine) header(vc *VC, cover bool) []string {
	used := map[string]bool{}
	for k := range e.used[vc] {
		if strings.HasPrefix(k, "spec:") {
			used[k[5:]] = true
		}
	}
	out := []string{
		"(declare-const Sin (Array (_ BitVec 32) (Array (_ BitVec 64) (_ BitVec 8))))",
		"(declare-const Send (Array (_ BitVec 32) (_ BitVec 64)))",
	}
	out = append(out, e.spec.closure(used)...)
	if cover {
		return append(out, vc.hdrCover...)
	}
	return append(out, vc.hdr...)
}

// funcKey is the contract key of an SSA function: "Name", "(T).Name" or "(*T).Name".
func funcKey(fn *ssa.Function) (pkg, key string) {
	o := fn
	if fn.Origin() != nil {
		o = fn.Origin()
	}
	if o.Pkg != nil {
		pkg = o.Pkg.Pkg.Path()
	} else if o.Object() != nil && o.Object().Pkg() != nil {
		pkg = o.Object().Pkg().Path()
	}
	sig := o.Signature
	if sig.Recv() == nil {
		return pkg, o.Name()
	}
	rt := sig.Recv().Type()
	star := ""
	if p, ok := rt.(*types.Pointer); ok {
		star = "*"
		rt = p.Elem()
	}
	name := rt.String()
	if n, ok := rt.(*types.Named); ok {
		name = n.Obj().Name()
	}
	return pkg, "(" + star + name + ")." + o.Name()
}

// instanceKey adds the type arguments of a generic instance: "(Ary[VarInt]).ReadFrom".
func instanceKey(fn *ssa.Function) string {
	_, k := funcKey(fn)
	if len(fn.TypeArgs()) == 0 {
		return k
	}
	var as []string
	for _, t := range fn.TypeArgs() {
		s := t.String()
		if n, ok := t.(*types.Named); ok {
			s = n.Obj().Name()
		}
		as = append(as, s)
	}
	return k + "[" + strings.Join(as, ",") + "]"
}

func (e *Engine) contractFor(fn *ssa.Function) *FuncContract {
	pkg, key := funcKey(fn)
	if len(fn.TypeArgs()) > 0 {
		if fc, ok := e.contracts.Funcs[pkg+"::"+instanceKey(fn)]; ok {
			return fc
		}
	}
	return e.contracts.Funcs[pkg+"::"+key]
}

func (e *Engine) ensureBuiltPkg(path string) {}

// ensureBuilt builds the SSA bodies of fn's package if that has not happened yet.
func (e *Engine) ensureBuilt(fn *ssa.Function) {
	o := fn
	if fn.Origin() != nil {
		o = fn.Origin()
	}
	if o.Pkg != nil && (strings.HasPrefix(o.Pkg.Pkg.Path(), modulePath) || inlineStdlib[o.String()]) {
		o.Pkg.Build()
	}
}

func (e *Engine) inlinable(fn *ssa.Function) bool {
	if fn.Synthetic != "" && fn.Blocks != nil && (strings.HasPrefix(fn.Synthetic, "wrapper") || strings.HasPrefix(fn.Synthetic, "bound") || strings.HasPrefix(fn.Synthetic, "thunk")) {
		return true // promoted-method wrappers: load the embedded field and forward
	}
	pkg, _ := funcKey(fn)
	if strings.HasPrefix(pkg, modulePath) {
		return true
	}
	return inlineStdlib[fn.String()]
}

// small library functions that are inlined rather than modelled
var inlineStdlib = map[string]bool{"io.LimitReader": true}

// findFunc resolves a contract key to the SSA function(s) it names (several
// for generic functions: one per instance in the program).
func (e *Engine) findFuncs(pkgPath, key string) []*ssa.Function {
	sp := e.pkgs[pkgPath]
	if sp == nil {
		return nil
	}
	if traceOn {
		fmt.Fprintln(os.Stderr, "findFuncs: building", pkgPath)
	}
	sp.Build()
	if traceOn {
		fmt.Fprintln(os.Stderr, "findFuncs: built")
	}
	// plain function
	if !strings.HasPrefix(key, "(") {
		if fn := sp.Func(key); fn != nil {
			return []*ssa.Function{fn}
		}
		return nil
	}
	// method: (T).M or (*T).M
	k := strings.Index(key, ").")
	if k < 0 {
		return nil
	}
	recv, name := key[1:k], key[k+2:]
	ptr := strings.HasPrefix(recv, "*")
	recv = strings.TrimPrefix(recv, "*")
	tn := sp.Type(recv)
	if tn == nil {
		return nil
	}
	named, ok := tn.Type().(*types.Named)
	if !ok {
		return nil
	}
	if named.TypeParams().Len() > 0 {
		// generic receiver: every instance the program uses
		var out []*ssa.Function
		for fn := range ssautil.AllFunctions(e.prog) {
			p, kk := funcKey(fn)
			if p == pkgPath && len(fn.TypeArgs()) > 0 && (kk == key || instanceKey(fn) == key) {
				out = append(out, fn)
			}
		}
		sort.Slice(out, func(i, j int) bool { return out[i].String() < out[j].String() })
		return out
	}
	var t types.Type = named
	if ptr {
		t = types.NewPointer(named)
	}
	sel := e.prog.MethodSets.MethodSet(t).Lookup(sp.Pkg, name)
	if sel == nil {
		return nil
	}
	fn := e.prog.MethodValue(sel)
	if fn == nil {
		return nil
	}
	// the contract key must name the declared receiver form
	if _, kk := funcKey(fn); kk != key {
		return nil
	}
	return []*ssa.Function{fn}
}

func (e *Engine) lookupType(pkg *types.Package, name string) types.Type {
	star := false
	if strings.HasPrefix(name, "ptr_") {
		star = true
		name = name[4:]
	}
	var t types.Type
	if pkg != nil {
		if o := pkg.Scope().Lookup(name); o != nil {
			t = o.Type()
		}
	}
	if t == nil {
		return nil
	}
	if star {
		return types.NewPointer(t)
	}
	return t
}

// ---------------------------------------------------------------- globals etc.

func (vc *VC) globalPtr(g *ssa.Global) *SV {
	id := vc.eng.globalID("global:" + g.String())
	return &SV{T: g.Type(), C: []string{bvLit(refBits, int64(id)), bvLit(64, 0)}, NonNil: true}
}

var globalIDs = map[string]int{}

func (e *Engine) globalID(key string) int {
	id, ok := globalIDs[key]
	if !ok {
		id = len(globalIDs) + 16
		if id >= 0xFFF0 {
			panic("too many globals")
		}
		globalIDs[key] = id
	}
	return id
}

func (vc *VC) funcValue(fn *ssa.Function) *SV {
	id := vc.eng.globalID("func:" + fn.String())
	return &SV{T: fn.Type(), C: []string{bvLit(refBits, int64(id)), bvLit(64, 0)}, NonNil: true, Fn: fn}
}

// stringConst: string constants are immutable byte objects with known content
// in the entry heap.
func (vc *VC) stringConst(s string, t types.Type) *SV {
	if s == "" {
		return &SV{T: t, C: []string{bvLit(refBits, 0), bvLit(64, 0), bvLit(64, 0)}}
	}
	id := vc.eng.globalID("str:" + s)
	strKeyIDs[id] = true
	constStrings[id] = s
	ref := bvLit(refBits, int64(id))
	if !vc.eng.declared(vc, fmt.Sprintf("strconst:%d", id)) && len(s) <= 64 && vc.entryH8 != "" {
		for i := 0; i < len(s); i++ {
			vc.assume(eq(sel2(vc.entryH8, ref, bvLit(64, int64(i))), bvLit(8, int64(s[i]))))
		}
	}
	return &SV{T: t, C: []string{ref, bvLit(64, 0), bvLit(64, int64(len(s)))}}
}

// closedWorld returns every type that can be the dynamic type of a non-nil value of the interface
// type t, if that set is closed: t has an unexported method, so only types declared in the method's
// package (found in its scope; generic ones instantiated with t's type arguments) can implement it.
// nil if the set is open or unknown.
func (e *Engine) closedWorld(t types.Type) []types.Type {
	it, ok := t.Underlying().(*types.Interface)
	if !ok {
		return nil
	}
	var pkg *types.Package
	for i := 0; i < it.NumMethods(); i++ {
		if m := it.Method(i); !m.Exported() {
			pkg = m.Pkg()
			break
		}
	}
	if pkg == nil {
		return nil
	}
	key := "cw:" + t.String()
	if v, ok := e.cwCache[key]; ok {
		return v
	}
	var targs []types.Type
	if tn, ok := types.Unalias(t).(*types.Named); ok && tn.TypeArgs() != nil {
		for i := 0; i < tn.TypeArgs().Len(); i++ {
			targs = append(targs, tn.TypeArgs().At(i))
		}
	}
	var out []types.Type
	names := pkg.Scope().Names()
	sort.Strings(names)
	for _, nm := range names {
		tn, ok := pkg.Scope().Lookup(nm).(*types.TypeName)
		if !ok || tn.IsAlias() {
			continue
		}
		named, ok := tn.Type().(*types.Named)
		if !ok {
			continue
		}
		if _, isI := named.Underlying().(*types.Interface); isI {
			continue
		}
		var cand types.Type = named
		if named.TypeParams().Len() > 0 {
			if named.TypeParams().Len() != len(targs) {
				continue
			}
			inst, err := types.Instantiate(nil, named, targs, true)
			if err != nil {
				continue
			}
			cand = inst
		}
		if types.Implements(cand, it) {
			out = append(out, cand)
		} else if pt := types.NewPointer(cand); types.Implements(pt, it) {
			out = append(out, pt)
		}
	}
	if e.cwCache == nil {
		e.cwCache = map[string][]types.Type{}
	}
	e.cwCache[key] = out
	return out
}

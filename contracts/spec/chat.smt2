; Text components on the wire (network-format NBT) are decoded by the reflective NBT codec,
; which is outside the verifier's reach. A deterministic decoder either accepts the bytes that
; start at a position or not, and consumes a number of bytes determined by them:
;   msg_ok(row, p)  - the bytes of stream content `row` from position p on start with a well-formed component
;   msg_len(row, p) - the length of that component
; Both are uninterpreted.
(declare-fun msg_ok ((Array (_ BitVec 64) (_ BitVec 8)) (_ BitVec 64)) Bool)
(declare-fun msg_len ((Array (_ BitVec 64) (_ BitVec 8)) (_ BitVec 64)) (_ BitVec 64))

#!/usr/bin/env python3
"""mkmut.py PROP NAME FILE OLD NEW  -- writes selftest/mutants/PROP/NAME.diff replacing OLD by NEW (first occurrence) in /repo/FILE"""
import sys,os,subprocess,tempfile
prop,name,file,old,new=sys.argv[1:6]
src=open('/repo/'+file).read()
old=old.encode().decode('unicode_escape'); new=new.encode().decode('unicode_escape')
assert old in src, 'pattern not found'
dst=src.replace(old,new,1)
d=tempfile.mkdtemp()
os.makedirs(os.path.join(d,'a',os.path.dirname(file)));os.makedirs(os.path.join(d,'b',os.path.dirname(file)))
open(os.path.join(d,'a',file),'w').write(src);open(os.path.join(d,'b',file),'w').write(dst)
out=subprocess.run(['diff','-u','a/'+file,'b/'+file],cwd=d,capture_output=True,text=True).stdout
os.makedirs(f'/verif/selftest/mutants/{prop}',exist_ok=True)
open(f'/verif/selftest/mutants/{prop}/{name}.diff','w').write(out)
subprocess.run(['rm','-rf',d])
print('wrote',name, len(out.splitlines()),'lines')

package main

import (
	"fmt"
	"go/types"

	"golang.org/x/tools/go/ssa"
)

// ------------------------------------------------------------------ strings

func (vc *VC) stringEq(st *State, x, y *SV) string {
	// content equality as an uninterpreted predicate over (row, off, len), with
	// the facts that are always true: identical descriptors are equal, equal
	// strings have equal length; the empty string equals only the empty string.
	p := vc.uf("str_eq", SBool, sRowBytes, SBV64, SBV64, sRowBytes, SBV64, SBV64)
	rx, ry := sel(st.H["H8"], x.C[0]), sel(st.H["H8"], y.C[0])
	t := vc.def("Bool", app(p, rx, x.C[1], x.C[2], ry, y.C[1], y.C[2]), "streq")
	vc.assume(implies(and(eq(rx, ry), eq(x.C[1], y.C[1]), eq(x.C[2], y.C[2])), t))
	vc.assume(implies(t, eq(x.C[2], y.C[2])))
	vc.assume(implies(and(eq(x.C[2], bvLit(64, 0)), eq(y.C[2], bvLit(64, 0))), t))
	// short constant-length comparison is decided bytewise
	if n := constLen(x.C[2], y.C[2]); n >= 0 && n <= 32 {
		var cs []string
		cs = append(cs, eq(x.C[2], y.C[2]))
		for k := 0; k < n; k++ {
			cs = append(cs, eq(sel(rx, cellIdx(x.C[1], k)), sel(ry, cellIdx(y.C[1], k))))
		}
		if x.C[2] == y.C[2] || true {
			vc.assume(implies(and(eq(x.C[2], bvLit(64, int64(n))), eq(y.C[2], bvLit(64, int64(n)))), eq(t, and(cs...))))
		}
	}
	return t
}

func (vc *VC) stringConcat(st *State, x, y *SV, rt types.Type) *SV {
	ref := vc.allocRaw(st, "concat")
	rx, ry := sel(st.H["H8"], x.C[0]), sel(st.H["H8"], y.C[0])
	zero := fmt.Sprintf("((as const %s) #x00)", rowSort(SBV8))
	r1 := vc.copyCells(SBV8, zero, bvLit(64, 0), rx, x.C[1], x.C[2], constLen(x.C[2]))
	r2 := vc.copyCells(SBV8, r1, x.C[2], ry, y.C[1], y.C[2], constLen(y.C[2]))
	st.H["H8"] = vc.def(heapSort(SBV8), sto(st.H["H8"], ref, r2), "H8")
	return &SV{T: rt, C: []string{ref, bvLit(64, 0), vc.defS(SBV64, app("bvadd", x.C[2], y.C[2]), "clen")}}
}

// ------------------------------------------------------------------ maps
//
// A map object m (a Ref) with a 32- or 64-bit scalar key and a one-component
// scalar value (bool, 32- or 64-bit integer) is modelled by two state
// components: a domain  Md<K> : Ref -> (K -> Bool)  and a value map
// Mv<K>_<V> : Ref -> (K -> V). Other maps are opaque (lookups return
// arbitrary values, updates are forgotten; noted as an assumption).

type mapShape struct {
	ok     bool
	kstr   bool // string keys: only constant keys are tracked (key = id of the string constant)
	kbits  int
	vsort  Sort   // first (or only) value component
	vsorts []Sort // all value components
	dom    string // state key of the domain
	val    string // state key of the first value component
	vals   []string
}

const maxMapComps = 4

func mapKeys() map[string]string {
	out := map[string]string{}
	for _, k := range []int{32, 64} {
		ks := bvSort(k).String()
		out[fmt.Sprintf("Md%d", k)] = fmt.Sprintf("(Array (_ BitVec 32) (Array %s Bool))", ks)
		for _, v := range []Sort{SBool, SBV32, SBV64} {
			out[fmt.Sprintf("Mv%d_%s", k, vtag(v))] = fmt.Sprintf("(Array (_ BitVec 32) (Array %s %s))", ks, v)
		}
	}
	// further value components (slices, strings, pointers as map values), 64-bit keys only
	for i := 1; i < maxMapComps; i++ {
		for _, v := range []Sort{SBool, SBV32, SBV64} {
			out[fmt.Sprintf("Mv64c%d_%s", i, vtag(v))] = fmt.Sprintf("(Array (_ BitVec 32) (Array (_ BitVec 64) %s))", v)
		}
	}
	return out
}

func vtag(v Sort) string {
	if v == SBool {
		return "b"
	}
	return fmt.Sprint(v.Bits())
}

func shapeOf(t types.Type) mapShape {
	m, ok := t.Underlying().(*types.Map)
	if !ok {
		return mapShape{}
	}
	kl, vl := layout(m.Key()), layout(m.Elem())
	sh := mapShape{}
	switch {
	case isString(m.Key()):
		sh.kstr, sh.kbits = true, 64
	case len(kl) == 1 && kl[0] != SBool && kl[0] != SRef && (kl[0].Bits() == 32 || kl[0].Bits() == 64):
		sh.kbits = kl[0].Bits()
	default:
		return mapShape{}
	}
	if len(vl) < 1 || len(vl) > maxMapComps || (len(vl) > 1 && sh.kbits != 64) {
		return mapShape{}
	}
	for i, v := range vl {
		if v != SBool && v.Bits() != 32 && v.Bits() != 64 {
			return mapShape{}
		}
		vs := v
		if v != SBool {
			vs = bvSort(v.Bits())
		}
		key := fmt.Sprintf("Mv%d_%s", sh.kbits, vtag(vs))
		if i > 0 {
			key = fmt.Sprintf("Mv64c%d_%s", i, vtag(vs))
		}
		sh.vsorts = append(sh.vsorts, vs)
		sh.vals = append(sh.vals, key)
	}
	sh.ok, sh.vsort, sh.val = true, sh.vsorts[0], sh.vals[0]
	sh.dom = fmt.Sprintf("Md%d", sh.kbits)
	return sh
}

// strKeyIDs: ids of string constants (the key of a constant string in a string-keyed map)
var strKeyIDs = map[int]bool{}

// mapKey gives the key term of k for a map of shape sh; ok is false for a string key that is
// not a constant (such lookups are arbitrary, such updates forget the whole map).
func (vc *VC) mapKey(sh mapShape, k *SV) (string, bool) {
	if !sh.kstr {
		return k.C[0], true
	}
	if v, _, ok := litVal(k.C[0]); ok {
		if v.Sign() == 0 {
			if lv, _, ok2 := litVal(k.C[2]); ok2 && lv.Sign() == 0 {
				return bvLit(64, 0), true // the empty string
			}
			return "", false
		}
		if v.IsInt64() && strKeyIDs[int(v.Int64())] {
			return bvLit(64, v.Int64()), true
		}
	}
	return "", false
}

func (vc *VC) mapInit(st *State, ref string, t types.Type) {
	sh := shapeOf(t)
	if !sh.ok {
		return
	}
	empty := fmt.Sprintf("((as const (Array %s Bool)) false)", bvSort(sh.kbits))
	st.H[sh.dom] = vc.def(stateSorts[sh.dom], sto(st.H[sh.dom], ref, empty), sh.dom)
}

// mapGet returns (present, value) of m[k] in state st without side effects (first value component).
func mapGet(st *State, sh mapShape, m, k string) (string, string) {
	present := sel2(st.H[sh.dom], m, k)
	return present, ite(present, sel2(st.H[sh.val], m, k), zeroOf(sh.vsort))
}

// mapGetAll: all value components.
func mapGetAll(st *State, sh mapShape, m, k string) (string, []string) {
	present := sel2(st.H[sh.dom], m, k)
	var out []string
	for i, key := range sh.vals {
		out = append(out, ite(present, sel2(st.H[key], m, k), zeroOf(sh.vsorts[i])))
	}
	return present, out
}

func (vc *VC) mapLookup(f *Frame, n *Node, in *ssa.Lookup, m *SV) *SV {
	st := n.St
	mt := in.X.Type().Underlying().(*types.Map)
	sh := shapeOf(in.X.Type())
	vt := mt.Elem()
	var val *SV
	var present string
	key, kok := "", false
	if sh.ok {
		key, kok = vc.mapKey(sh, f.get(in.Index, n))
	}
	if !sh.ok || !kok {
		if !sh.ok {
			vc.note("map of shape " + in.X.Type().String() + " is opaque: lookups return arbitrary values")
		} else {
			vc.note("lookup in " + in.X.Type().String() + " with a non-constant string key: arbitrary result")
		}
		val = vc.freshSV(vt, "mapv", st)
		present = vc.freshS(SBool, "mapok")
	} else {
		p, vs := mapGetAll(st, sh, m.C[0], key)
		present = vc.def("Bool", p, "mapok")
		val = &SV{T: vt}
		vl := layout(vt)
		for i, v := range vs {
			val.C = append(val.C, vc.defS(sh.vsorts[i], v, "mapv"))
			if vl[i] == SRef {
				// references stored in a map refer to existing objects
				vc.assume(app("bvult", val.C[i], st.H["next"]))
			}
		}
		vc.constrainSV(val)
	}
	if in.CommaOk {
		return tupleSV(in.Type(), val, &SV{T: types.Typ[types.Bool], C: []string{present}})
	}
	return val
}

// mapForget: the map object m may have changed arbitrarily.
func (vc *VC) mapForget(st *State, sh mapShape, m string) {
	st.H[sh.dom] = vc.def(stateSorts[sh.dom], sto(st.H[sh.dom], m, vc.fresh(fmt.Sprintf("(Array %s Bool)", bvSort(sh.kbits)), "mdom")), sh.dom)
	for i, key := range sh.vals {
		st.H[key] = vc.def(stateSorts[key], sto(st.H[key], m, vc.fresh(fmt.Sprintf("(Array %s %s)", bvSort(sh.kbits), sh.vsorts[i]), "mval")), key)
	}
}

func (vc *VC) mapUpdate(f *Frame, n *Node, in *ssa.MapUpdate) {
	st := n.St
	m := f.get(in.Map, n)
	vc.nilCheck(f, n, in, m)
	sh := shapeOf(in.Map.Type())
	if !sh.ok {
		vc.note("map of shape " + in.Map.Type().String() + " is opaque: updates are forgotten")
		return
	}
	key, kok := vc.mapKey(sh, f.get(in.Key, n))
	if !kok {
		vc.note("update of " + in.Map.Type().String() + " with a non-constant string key: the map's tracked contents are forgotten")
		vc.mapForget(st, sh, m.C[0])
		return
	}
	val := f.get(in.Value, n)
	st.H[sh.dom] = vc.def(stateSorts[sh.dom], sto2(st.H[sh.dom], m.C[0], key, "true"), sh.dom)
	for i, k := range sh.vals {
		st.H[k] = vc.def(stateSorts[k], sto2(st.H[k], m.C[0], key, val.C[i]), k)
	}
}

func (vc *VC) mapDelete(f *Frame, n *Node, m, k *SV) {
	st := n.St
	sh := shapeOf(m.T)
	if !sh.ok {
		return
	}
	key, kok := vc.mapKey(sh, k)
	if !kok {
		vc.mapForget(st, sh, m.C[0])
		return
	}
	st.H[sh.dom] = vc.def(stateSorts[sh.dom], sto2(st.H[sh.dom], m.C[0], key, "false"), sh.dom)
}

func (vc *VC) mapLen(st *State, m *SV) string {
	l := vc.freshS(SBV64, "maplen")
	vc.assume(app("bvsge", l, bvLit(64, 0)))
	return l
}

// ------------------------------------------------------------------ range

func (vc *VC) rangeInit(f *Frame, n *Node, in *ssa.Range) *SV {
	panic(unsupported("range over " + in.X.Type().String() + " in " + f.fn.String()))
}

func (vc *VC) rangeNext(f *Frame, n *Node, in *ssa.Next) *SV {
	panic(unsupported("range/next in " + f.fn.String()))
}

package main

import (
	"fmt"
	"go/types"

	"golang.org/x/tools/go/ssa"
)

// ------------------------------------------------------------------ strings

func (vc *VC) stringEq(st *State, x, y *SV) string {
	// content equality as an uninterpreted predicate over (row, off, len), with
	// the facts that are always true: identical descriptors are equal, equal
	// strings have equal length; the empty string equals only the empty string.
	p := vc.uf("str_eq", SBool, sRowBytes, SBV64, SBV64, sRowBytes, SBV64, SBV64)
	rx, ry := sel(st.H["H8"], x.C[0]), sel(st.H["H8"], y.C[0])
	t := vc.def("Bool", app(p, rx, x.C[1], x.C[2], ry, y.C[1], y.C[2]), "streq")
	vc.assume(implies(and(eq(rx, ry), eq(x.C[1], y.C[1]), eq(x.C[2], y.C[2])), t))
	vc.assume(implies(t, eq(x.C[2], y.C[2])))
	vc.assume(implies(and(eq(x.C[2], bvLit(64, 0)), eq(y.C[2], bvLit(64, 0))), t))
	// short constant-length comparison is decided bytewise
	if n := constLen(x.C[2], y.C[2]); n >= 0 && n <= 32 {
		var cs []string
		cs = append(cs, eq(x.C[2], y.C[2]))
		for k := 0; k < n; k++ {
			cs = append(cs, eq(sel(rx, cellIdx(x.C[1], k)), sel(ry, cellIdx(y.C[1], k))))
		}
		if x.C[2] == y.C[2] || true {
			vc.assume(implies(and(eq(x.C[2], bvLit(64, int64(n))), eq(y.C[2], bvLit(64, int64(n)))), eq(t, and(cs...))))
		}
	}
	return t
}

func (vc *VC) stringConcat(st *State, x, y *SV, rt types.Type) *SV {
	ref := vc.allocRaw(st, "concat")
	rx, ry := sel(st.H["H8"], x.C[0]), sel(st.H["H8"], y.C[0])
	zero := fmt.Sprintf("((as const %s) #x00)", rowSort(SBV8))
	r1 := vc.copyCells(SBV8, zero, bvLit(64, 0), rx, x.C[1], x.C[2], constLen(x.C[2]))
	r2 := vc.copyCells(SBV8, r1, x.C[2], ry, y.C[1], y.C[2], constLen(y.C[2]))
	st.H["H8"] = vc.def(heapSort(SBV8), sto(st.H["H8"], ref, r2), "H8")
	return &SV{T: rt, C: []string{ref, bvLit(64, 0), vc.defS(SBV64, app("bvadd", x.C[2], y.C[2]), "clen")}}
}

// ------------------------------------------------------------------ maps
//
// A map object m (a Ref) is modelled by per-(key sort, value sort) ghost
// arrays declared on demand:  Mdom_<K> : Ref -> (K -> Bool),
// Mval_<K>_<V>_<i> : Ref -> (K -> V) for each component i of the value.
// Only scalar keys are supported; other maps are opaque (lookups return
// arbitrary values, updates are forgotten).

func mapKeySort(t types.Type) (Sort, bool) {
	m := t.Underlying().(*types.Map)
	l := layout(m.Key())
	if len(l) == 1 && l[0] != SBool {
		return l[0], true
	}
	return 0, false
}

func (vc *VC) mapState(st *State, name, sort string) string {
	if _, ok := st.H[name]; !ok {
		// declared lazily: the entry value is a fresh constant shared by the VC
		key := "mapstate:" + name
		if !vc.eng.declared(vc, key) {
			vc.emit(fmt.Sprintf("(declare-const %s!0 %s)", name, sort))
		}
		return name + "!0"
	}
	return st.H[name]
}

func mapDomName(k Sort) string { return fmt.Sprintf("Mdom_%d", k.Bits()) }
func mapDomSort(k Sort) string {
	return fmt.Sprintf("(Array (_ BitVec 32) (Array %s Bool))", k)
}
func mapValName(k, v Sort, i int) string {
	vb := "b"
	if v != SBool {
		vb = fmt.Sprint(v.Bits())
		if v == SRef {
			vb = "r"
		}
		if v == STid {
			vb = "t"
		}
	}
	return fmt.Sprintf("Mval_%d_%s_%d", k.Bits(), vb, i)
}
func mapValSort(k, v Sort) string {
	return fmt.Sprintf("(Array (_ BitVec 32) (Array %s %s))", k, v)
}

func (vc *VC) mapInit(st *State, ref string) {
	// a fresh map is empty for every key sort that is ever used with it; since
	// refs are fresh, we record emptiness lazily at first use through Mfresh.
	st.H["Mfresh:"+ref] = "true"
}

func (vc *VC) mapLookup(f *Frame, n *Node, in *ssa.Lookup, m *SV) *SV {
	st := n.St
	mt := in.X.Type().Underlying().(*types.Map)
	ks, ok := mapKeySort(in.X.Type())
	vt := mt.Elem()
	var val *SV
	var present string
	if !ok {
		vc.note("map with non-scalar key " + in.X.Type().String() + ": lookups return arbitrary values")
		val = vc.freshSV(vt, "mapv", st)
		present = vc.freshS(SBool, "mapok")
	} else {
		key := f.get(in.Index, n).C[0]
		dom := vc.mapState(st, mapDomName(ks), mapDomSort(ks))
		present = vc.def("Bool", sel(sel(dom, m.C[0]), key), "mapok")
		l := layout(vt)
		val = &SV{T: vt, C: make([]string, len(l))}
		for i, s := range l {
			mv := vc.mapState(st, mapValName(ks, s, i), mapValSort(ks, s))
			val.C[i] = vc.defS(s, ite(present, sel(sel(mv, m.C[0]), key), zeroOf(s)), "mapv")
			if s == SRef {
				vc.assume(app("bvult", val.C[i], st.H["next"]))
			}
		}
		vc.constrainSV(val)
	}
	if in.CommaOk {
		return tupleSV(in.Type(), val, &SV{T: types.Typ[types.Bool], C: []string{present}})
	}
	return val
}

func (vc *VC) mapUpdate(f *Frame, n *Node, in *ssa.MapUpdate) {
	st := n.St
	m := f.get(in.Map, n)
	vc.nilCheck(f, n, in, m)
	ks, ok := mapKeySort(in.Map.Type())
	if !ok {
		vc.note("map with non-scalar key " + in.Map.Type().String() + ": updates are forgotten")
		return
	}
	key := f.get(in.Key, n).C[0]
	val := f.get(in.Value, n)
	dn := mapDomName(ks)
	dom := vc.mapState(st, dn, mapDomSort(ks))
	st.H[dn] = vc.def(mapDomSort(ks), sto(dom, m.C[0], sto(sel(dom, m.C[0]), key, "true")), dn)
	l := layout(in.Value.Type())
	for i, s := range l {
		vn := mapValName(ks, s, i)
		mv := vc.mapState(st, vn, mapValSort(ks, s))
		st.H[vn] = vc.def(mapValSort(ks, s), sto(mv, m.C[0], sto(sel(mv, m.C[0]), key, val.C[i])), vn)
	}
}

func (vc *VC) mapDelete(f *Frame, n *Node, m, k *SV) {
	st := n.St
	ks, ok := mapKeySort(m.T)
	if !ok {
		return
	}
	dn := mapDomName(ks)
	dom := vc.mapState(st, dn, mapDomSort(ks))
	st.H[dn] = vc.def(mapDomSort(ks), sto(dom, m.C[0], sto(sel(dom, m.C[0]), k.C[0], "false")), dn)
}

func (vc *VC) mapLen(st *State, m *SV) string {
	l := vc.freshS(SBV64, "maplen")
	vc.assume(app("bvsge", l, bvLit(64, 0)))
	return l
}

// ------------------------------------------------------------------ range

func (vc *VC) rangeInit(f *Frame, n *Node, in *ssa.Range) *SV {
	panic(unsupported("range over " + in.X.Type().String() + " in " + f.fn.String()))
}

func (vc *VC) rangeNext(f *Frame, n *Node, in *ssa.Next) *SV {
	panic(unsupported("range/next in " + f.fn.String()))
}

; compress/zlib is not verified: inflate / deflate are uninterpreted functions over byte rows.
; inflate_row(a, p, e): content of the stream obtained by inflating a[p..e); inflate_len its length.
(declare-fun inflate_row ((Array (_ BitVec 64) (_ BitVec 8)) (_ BitVec 64) (_ BitVec 64)) (Array (_ BitVec 64) (_ BitVec 8)))
(declare-fun inflate_len ((Array (_ BitVec 64) (_ BitVec 8)) (_ BitVec 64) (_ BitVec 64)) (_ BitVec 64))

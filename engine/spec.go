package main

import (
	"fmt"
	"os"
	"path/filepath"
	"sort"
	"strings"
)

// specFunc is a pure specification function defined in SMT-LIB in
// /verif/contracts/spec/*.smt2.
type specFunc struct {
	name  string
	args  []Sort
	res   Sort
	text  string   // the complete top-level form that defines it
	form  int      // index of the form (several functions may share a form)
	deps  []string // other spec functions mentioned in the form
}

type SpecLib struct {
	funcs map[string]*specFunc
	forms []string
	formDeps [][]string
	formNames [][]string
}

// splitForms splits SMT-LIB text into top-level s-expressions.
func splitForms(src string) []string {
	var forms []string
	depth, start := 0, -1
	inComment := false
	for i, r := range src {
		if inComment {
			if r == '\n' {
				inComment = false
			}
			continue
		}
		switch r {
		case ';':
			inComment = true
		case '(':
			if depth == 0 {
				start = i
			}
			depth++
		case ')':
			depth--
			if depth == 0 && start >= 0 {
				forms = append(forms, src[start:i+1])
				start = -1
			}
		}
	}
	return forms
}

// sexp is a tiny s-expression tree.
type sexp struct {
	atom string
	list []*sexp
}

func parseSexp(s string) *sexp {
	toks := tokenizeSexp(s)
	pos := 0
	var rd func() *sexp
	rd = func() *sexp {
		t := toks[pos]
		pos++
		if t == "(" {
			n := &sexp{list: []*sexp{}}
			for toks[pos] != ")" {
				n.list = append(n.list, rd())
			}
			pos++
			return n
		}
		return &sexp{atom: t}
	}
	return rd()
}

func tokenizeSexp(s string) []string {
	var toks []string
	cur := strings.Builder{}
	flush := func() {
		if cur.Len() > 0 {
			toks = append(toks, cur.String())
			cur.Reset()
		}
	}
	inComment := false
	for _, r := range s {
		if inComment {
			if r == '\n' {
				inComment = false
			}
			continue
		}
		switch r {
		case ';':
			flush()
			inComment = true
		case '(', ')':
			flush()
			toks = append(toks, string(r))
		case ' ', '\t', '\n', '\r':
			flush()
		default:
			cur.WriteRune(r)
		}
	}
	flush()
	return toks
}

func (s *sexp) String() string {
	if s.list == nil {
		return s.atom
	}
	var p []string
	for _, x := range s.list {
		p = append(p, x.String())
	}
	return "(" + strings.Join(p, " ") + ")"
}

func (s *sexp) atoms(out map[string]bool) {
	if s.list == nil {
		out[s.atom] = true
		return
	}
	for _, x := range s.list {
		x.atoms(out)
	}
}

func loadSpecs(dir string) (*SpecLib, error) {
	lib := &SpecLib{funcs: map[string]*specFunc{}}
	files, _ := filepath.Glob(filepath.Join(dir, "*.smt2"))
	sort.Strings(files)
	for _, f := range files {
		data, err := os.ReadFile(f)
		if err != nil {
			return nil, err
		}
		for _, form := range splitForms(string(data)) {
			sx := parseSexp(form)
			if len(sx.list) == 0 {
				continue
			}
			idx := len(lib.forms)
			lib.forms = append(lib.forms, sx.String())
			var names []string
			addFn := func(name string, args []*sexp, res *sexp, argsAreBindings bool) error {
				sf := &specFunc{name: name, form: idx}
				for _, a := range args {
					as := a
					if argsAreBindings {
						as = a.list[1]
					}
					s, ok := sortFromSMT(as.String())
					if !ok {
						return fmt.Errorf("%s: unsupported sort %s in %s", f, as, name)
					}
					sf.args = append(sf.args, s)
				}
				s, ok := sortFromSMT(res.String())
				if !ok {
					return fmt.Errorf("%s: unsupported result sort %s in %s", f, res, name)
				}
				sf.res = s
				if _, dup := lib.funcs[name]; dup {
					return fmt.Errorf("%s: duplicate spec function %s", f, name)
				}
				lib.funcs[name] = sf
				names = append(names, name)
				return nil
			}
			var err error
			switch sx.list[0].atom {
			case "define-fun", "define-fun-rec":
				err = addFn(sx.list[1].atom, sx.list[2].list, sx.list[3], true)
			case "declare-fun":
				err = addFn(sx.list[1].atom, sx.list[2].list, sx.list[3], false)
			case "declare-const":
				err = addFn(sx.list[1].atom, nil, sx.list[2], false)
			case "define-funs-rec":
				for _, d := range sx.list[1].list {
					if err = addFn(d.list[0].atom, d.list[1].list, d.list[2], true); err != nil {
						break
					}
				}
			case "assert":
				// axiom: attached to every function it mentions (emitted when any is used)
			default:
				err = fmt.Errorf("%s: unsupported top-level form %s", f, sx.list[0].atom)
			}
			if err != nil {
				return nil, err
			}
			lib.formNames = append(lib.formNames, names)
		}
	}
	// dependencies per form
	for i, form := range lib.forms {
		at := map[string]bool{}
		parseSexp(form).atoms(at)
		var deps []string
		for a := range at {
			if sf, ok := lib.funcs[a]; ok && sf.form != i {
				deps = append(deps, a)
			}
		}
		sort.Strings(deps)
		lib.formDeps = append(lib.formDeps, deps)
	}
	return lib, nil
}

// closure returns the forms needed for the given used function names, in file
// order; axioms (assert forms) are included when all functions they mention
// are included.
func (lib *SpecLib) closure(used map[string]bool) []string {
	need := map[int]bool{}
	var visit func(name string)
	visit = func(name string) {
		sf := lib.funcs[name]
		if sf == nil || need[sf.form] {
			return
		}
		need[sf.form] = true
		for _, d := range lib.formDeps[sf.form] {
			visit(d)
		}
	}
	for u := range used {
		visit(u)
	}
	var out []string
	for i, f := range lib.forms {
		if need[i] {
			out = append(out, f)
			continue
		}
		if strings.HasPrefix(f, "(assert") && len(lib.formDeps[i]) > 0 {
			all := true
			for _, d := range lib.formDeps[i] {
				if !need[lib.funcs[d].form] {
					all = false
				}
			}
			if all {
				out = append(out, f)
			}
		}
	}
	return out
}

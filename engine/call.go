package main

import (
	"fmt"
	"go/types"
	"os"
	"strings"

	"golang.org/x/tools/go/ssa"
)

const maxInlineDepth = 12

func tupleSV(t types.Type, vals ...*SV) *SV {
	return &SV{T: t, Sub: vals}
}

func (vc *VC) resultOf(sig *types.Signature, vals []*SV) *SV {
	switch sig.Results().Len() {
	case 0:
		return nil
	case 1:
		return vals[0]
	}
	return tupleSV(sig.Results(), vals...)
}

func (vc *VC) call(f *Frame, n *Node, in ssa.Instruction, c *ssa.CallCommon, reach string) *SV {
	var args []*SV
	for _, a := range c.Args {
		args = append(args, f.get(a, n))
	}
	if c.IsInvoke() {
		recv := f.get(c.Value, n)
		return vc.invoke(f, n, in, recv, c.Method, args)
	}
	switch callee := c.Value.(type) {
	case *ssa.Builtin:
		return vc.builtin(f, n, in, callee, c, args)
	case *ssa.Function:
		return vc.staticCall(f, n, in, callee, args, nil)
	case *ssa.MakeClosure:
		cl := f.get(callee, n)
		return vc.staticCall(f, n, in, callee.Fn.(*ssa.Function), args, cl.Sub)
	}
	fnv := f.get(c.Value, n)
	if fnv.Fn != nil {
		return vc.staticCall(f, n, in, fnv.Fn, args, fnv.Sub)
	}
	// call through a function value of unknown identity
	vc.oblige("nil-func", "call of a possibly nil function value"+f.where(in), n.Reach, not(eq(fnv.C[0], bvLit(refBits, 0))), "@nopanic")
	vc.note("call through a function value of unknown identity" + f.where(in) + ": assumed total, arbitrary results, may modify any memory and any stream")
	vc.havocAll(n.St, "dyncall")
	return vc.freshResults(c.Signature(), n.St, "dyn")
}

func (vc *VC) callDeferred(f *Frame, n *Node, d deferred) {
	c := d.call
	// the deferred call runs only on paths that executed the defer statement
	save := n.Reach
	n.Reach = vc.def("Bool", and(save, d.reach), "dreach")
	defer func() { n.Reach = save }()
	if c.IsInvoke() {
		vc.invoke(f, n, nil, d.fnv, c.Method, d.args)
		return
	}
	switch callee := c.Value.(type) {
	case *ssa.Function:
		vc.staticCall(f, n, nil, callee, d.args, nil)
		return
	case *ssa.Builtin:
		return
	}
	if d.fnv != nil && d.fnv.Fn != nil {
		vc.staticCall(f, n, nil, d.fnv.Fn, d.args, d.fnv.Sub)
		return
	}
	vc.note("deferred call through an unknown function value in " + f.fn.String() + ": assumed total, havocs everything")
	vc.havocAll(n.St, "defer")
}

func (vc *VC) freshResults(sig *types.Signature, st *State, hint string) *SV {
	var vals []*SV
	for i := 0; i < sig.Results().Len(); i++ {
		vals = append(vals, vc.freshSV(sig.Results().At(i).Type(), hint, st))
	}
	return vc.resultOf(sig, vals)
}

func (vc *VC) havocAll(st *State, hint string) {
	var keep [][3]string
	for _, t := range vc.stable {
		keep = append(keep, [3]string{t.heap, t.ref, t.lo})
	}
	old := st.clone()
	defer func() {
		for _, k := range keep {
			st.H[k[0]] = vc.def(stateSorts[k[0]], sto2(st.H[k[0]], k[1], k[2], sel2(old.H[k[0]], k[1], k[2])), k[0])
		}
	}()
	for _, k := range stateKeys {
		if k == "next" {
			nn := vc.fresh(stateSorts[k], "next")
			vc.assume(app("bvuge", nn, st.H[k]))
			vc.assume(app("bvult", nn, bvLit(refBits, 1<<30)))
			st.H[k] = nn
			continue
		}
		st.H[k] = vc.fresh(stateSorts[k], hint+"_"+k)
	}
}

// havocHeaps forgets the memory heaps (not the stream ghosts).
func (vc *VC) havocHeaps(st *State, hint string) {
	for _, s := range allHeapSorts {
		st.H[s.heap()] = vc.fresh(heapSort(s), hint+"_"+s.heap())
	}
	nn := vc.fresh(stateSorts["next"], "next")
	vc.assume(app("bvuge", nn, st.H["next"]))
	vc.assume(app("bvult", nn, bvLit(refBits, 1<<30)))
	st.H["next"] = nn
}

func (vc *VC) staticCall(f *Frame, n *Node, in ssa.Instruction, fn *ssa.Function, args []*SV, free []*SV) *SV {
	name := fn.String()
	if fn.Origin() != nil {
		name = fn.Origin().String()
	}
	if m, ok := models[name]; ok {
		return m(&callCtx{vc: vc, f: f, n: n, in: in, fn: fn, args: args})
	}
	fc := vc.eng.contractFor(fn)
	if fn.Blocks == nil {
		vc.eng.ensureBuilt(fn)
	}
	if fc != nil && !fc.Inline && !(f.depth == 0 && false) {
		return vc.applyContract(f, n, in, fn, fc, args)
	}
	onStack := f.fn == fn
	for _, s := range f.stack {
		if s == fn {
			onStack = true
		}
	}
	if fn.Blocks != nil && vc.eng.inlinable(fn) && f.depth < maxInlineDepth && !onStack {
		return vc.inline(f, n, in, fn, fc, args, free)
	}
	// unknown callee: total, arbitrary results, modifies memory reachable from
	// pointer-like arguments (modelled as: all heaps) and streams it is handed.
	vc.defaultCall(f, n, in, fn, args)
	return vc.freshResults(fn.Signature, n.St, "r_"+fn.Name())
}

func (vc *VC) defaultCall(f *Frame, n *Node, in ssa.Instruction, fn *ssa.Function, args []*SV) {
	ptr, ifc := false, false
	for _, a := range args {
		if a.T == nil {
			continue
		}
		walkType(a.T, func(t types.Type) {
			switch t.Underlying().(type) {
			case *types.Pointer, *types.Slice, *types.Map:
				ptr = true
			case *types.Interface, *types.Signature:
				ifc = true
			}
		})
	}
	what := "pure"
	switch {
	case ifc:
		vc.havocAll(n.St, "call")
		what = "havocs all memory and streams"
	case ptr:
		vc.havocHeaps(n.St, "call")
		what = "havocs all memory"
	}
	vc.note(fmt.Sprintf("un-contracted callee %s: assumed total with arbitrary results (%s)", fn.String(), what))
}

func walkType(t types.Type, f func(types.Type)) {
	f(t)
	switch u := t.Underlying().(type) {
	case *types.Struct:
		for i := 0; i < u.NumFields(); i++ {
			walkType(u.Field(i).Type(), f)
		}
	case *types.Array:
		walkType(u.Elem(), f)
	}
}

func (vc *VC) inline(f *Frame, n *Node, in ssa.Instruction, fn *ssa.Function, fc *FuncContract, args []*SV, free []*SV) *SV {
	var anns map[int]*LoopAnn
	if fc != nil {
		anns = fc.Loops
	}
	g, err := buildGraph(fn, anns)
	if err != nil {
		panic(unsupported(err.Error()))
	}
	if os.Getenv("GOVC_TRACE") != "" {
		fmt.Fprintf(os.Stderr, "%sinline %s (%d nodes)\n", strings.Repeat("  ", f.depth), fn.String(), len(g.Order))
	}
	nf := &Frame{vc: vc, fn: fn, g: g, fc: fc, params: args, free: free,
		vals: map[ssa.Value]map[string]*SV{}, memo: map[ssa.Value]map[*Node]*SV{},
		depth: f.depth + 1, stack: append(append([]*ssa.Function{}, f.stack...), f.fn),
		path: f.path + " > " + fn.Name()}
	if in != nil {
		nf.path = f.where(in) + " > " + fn.Name()
	}
	vc.exec(nf, n.Reach, n.St)
	return vc.finishInline(n, nf, fn.Signature)
}

func (vc *VC) finishInline(n *Node, nf *Frame, sig *types.Signature) *SV {
	if len(nf.rets) == 0 {
		n.Reach = "false"
		n.done = true
		if sig.Results().Len() == 0 {
			return nil
		}
		var vals []*SV
		for i := 0; i < sig.Results().Len(); i++ {
			vals = append(vals, zeroSV(sig.Results().At(i).Type()))
		}
		return vc.resultOf(sig, vals)
	}
	var edges []*Edge
	var conds []string
	for _, r := range nf.rets {
		edges = append(edges, &Edge{Cond: r.cond, St: r.st})
		conds = append(conds, r.cond)
	}
	n.Reach = vc.def("Bool", or(conds...), "ret")
	n.St = vc.mergeStates(edges)
	var vals []*SV
	for i := 0; i < sig.Results().Len(); i++ {
		var vs []*SV
		for _, r := range nf.rets {
			vs = append(vs, r.vals[i])
		}
		vals = append(vals, mergeSVs(vc, conds, vs))
	}
	return vc.resultOf(sig, vals)
}

// ------------------------------------------------------------------ invoke

func (vc *VC) invoke(f *Frame, n *Node, in ssa.Instruction, recv *SV, m *types.Func, args []*SV) *SV {
	sig := m.Type().(*types.Signature)
	if len(recv.Cands) == 0 && !recv.Exact {
		// closed world: an interface with an unexported method can only be implemented by the
		// types of the package that declares that method
		if cw := vc.eng.closedWorld(recv.T); len(cw) > 0 {
			r2 := *recv
			r2.Cands, r2.Exact, r2.Guess = cw, true, false
			recv = &r2
		}
	}
	if vc.Contract != nil && vc.Contract.SplitDispatch && f.depth == 0 && recv.Exact && len(recv.Cands) > 1 {
		if _, _, lit := litVal(recv.C[0]); !lit {
			// one VC per dynamic type of this receiver (the decision is shared by all calls on the same type tag)
			var usable []types.Type
			for _, ct := range recv.Cands {
				if sel := vc.eng.prog.MethodSets.MethodSet(ct).Lookup(m.Pkg(), m.Name()); sel != nil {
					usable = append(usable, ct)
				}
			}
			key := "dyn:" + recv.C[0]
			k, have := vc.valDecisions[key]
			if !have {
				var vals []int64
				for i := range usable {
					vals = append(vals, int64(i))
				}
				panic(needDecision{key: key, values: vals})
			}
			if int(k) < len(usable) {
				r2 := *recv
				r2.Cands = []types.Type{usable[k]}
				recv = &r2
				vc.oblige("nil-invoke", "method call on a nil interface"+f.wherei(in), n.Reach, not(eq(recv.C[0], bvLit(tidBits, 0))), "@nopanic")
				vc.assume(implies(n.Reach, eq(recv.C[0], vc.eng.typeID(usable[k]))))
			}
		}
	}
	if !recv.Exact || len(recv.Cands) > 0 {
		vc.oblige("nil-invoke", "method call on a nil interface"+f.wherei(in), n.Reach, not(eq(recv.C[0], bvLit(tidBits, 0))), "@nopanic")
	} else {
		vc.oblige("nil-invoke", "method call on a nil interface"+f.wherei(in), n.Reach, "false", "@nopanic")
		return vc.freshResults(sig, n.St, "nil")
	}
	type alt struct {
		cond string
		st   *State
		res  *SV
	}
	var alts []alt
	pre := n.St
	preReach := n.Reach
	var known []string
	for _, ct := range recv.Cands {
		if sel := vc.eng.prog.MethodSets.MethodSet(ct).Lookup(m.Pkg(), m.Name()); sel == nil {
			continue // cannot be the dynamic type of a value of this interface type
		}
		if it, ok := recv.T.Underlying().(*types.Interface); ok && !types.Implements(ct, it) {
			continue
		}
		id := vc.eng.typeID(ct)
		cnd := eq(recv.C[0], id)
		known = append(known, cnd)
		fn := vc.eng.prog.LookupMethod(ct, m.Pkg(), m.Name())
		if fn == nil {
			panic(unsupported("no method " + m.Name() + " on " + ct.String()))
		}
		n.St = pre.clone()
		n.Reach = vc.def("Bool", and(preReach, cnd), "disp")
		self := vc.unbox(n.St, recv, ct)
		res := vc.staticCall(f, n, in, fn, append([]*SV{self}, args...), nil)
		alts = append(alts, alt{n.Reach, n.St, res})
		n.done = false
	}
	if !recv.Exact {
		oc := vc.def("Bool", and(preReach, not(or(known...))), "opaque")
		if len(known) == 0 || !vc.infeasible(oc, "dynamic type outside the known candidates for "+m.Name()+f.wherei(in)) {
			n.St = pre.clone()
			n.Reach = oc
			res := vc.opaqueInvoke(f, n, in, recv, m, args)
			alts = append(alts, alt{n.Reach, n.St, res})
		}
	}
	if len(alts) == 0 {
		n.Reach = "false"
		n.done = true
		return vc.freshResults(sig, n.St, "dead")
	}
	if len(alts) == 1 {
		n.Reach = vc.def("Bool", alts[0].cond, "r")
		if len(known) == 1 && recv.Exact {
			// single known type: no need to keep the dispatch condition
			n.Reach = alts[0].cond
		}
		return alts[0].res
	}
	var edges []*Edge
	var conds []string
	for _, a := range alts {
		edges = append(edges, &Edge{Cond: a.cond, St: a.st})
		conds = append(conds, a.cond)
	}
	n.Reach = vc.def("Bool", or(conds...), "r")
	n.St = vc.mergeStates(edges)
	if sig.Results().Len() == 0 {
		return nil
	}
	if sig.Results().Len() == 1 {
		var vs []*SV
		for _, a := range alts {
			vs = append(vs, a.res)
		}
		return mergeSVs(vc, conds, vs)
	}
	var vals []*SV
	for i := 0; i < sig.Results().Len(); i++ {
		var vs []*SV
		for _, a := range alts {
			vs = append(vs, a.res.Sub[i])
		}
		vals = append(vals, mergeSVs(vc, conds, vs))
	}
	return tupleSV(sig.Results(), vals...)
}

func (f *Frame) wherei(in ssa.Instruction) string {
	if in == nil {
		return f.path + " (deferred)"
	}
	return f.where(in)
}

// opaqueInvoke applies the interface contract of a method whose receiver's
// dynamic type is unknown.
func (vc *VC) opaqueInvoke(f *Frame, n *Node, in ssa.Instruction, recv *SV, m *types.Func, args []*SV) *SV {
	key := m.Name()
	if im, ok := ifaceModels[key]; ok {
		if res, handled := im(&callCtx{vc: vc, f: f, n: n, in: in, args: args, recv: recv, method: m}); handled {
			return res
		}
	}
	sig := m.Type().(*types.Signature)
	vc.note(fmt.Sprintf("interface method %s on a value of unknown dynamic type: assumed total, arbitrary results, havocs all memory and streams", m.FullName()))
	vc.havocAll(n.St, "invoke")
	return vc.freshResults(sig, n.St, "inv_"+m.Name())
}

// ------------------------------------------------------------------ builtins

func (vc *VC) builtin(f *Frame, n *Node, in ssa.Instruction, b *ssa.Builtin, c *ssa.CallCommon, args []*SV) *SV {
	st := n.St
	switch b.Name() {
	case "len", "cap":
		x := args[0]
		rt := types.Typ[types.Int]
		switch u := c.Args[0].Type().Underlying().(type) {
		case *types.Slice:
			if b.Name() == "cap" {
				return &SV{T: rt, C: []string{x.C[3]}}
			}
			return &SV{T: rt, C: []string{x.C[2]}}
		case *types.Basic:
			return &SV{T: rt, C: []string{x.C[2]}}
		case *types.Map:
			return &SV{T: rt, C: []string{vc.mapLen(st, x)}}
		case *types.Pointer:
			return &SV{T: rt, C: []string{bvLit(64, u.Elem().Underlying().(*types.Array).Len())}}
		case *types.Array:
			return &SV{T: rt, C: []string{bvLit(64, u.Len())}}
		}
	case "copy":
		dst, src := args[0], args[1]
		srcLen := src.C[2]
		nn := vc.defS(SBV64, ite(app("bvslt", dst.C[2], srcLen), dst.C[2], srcLen), "ncopy")
		et := c.Args[0].Type().Underlying().(*types.Slice).Elem()
		l := layout(et)
		if len(l) != 1 {
			panic(unsupported("copy of multi-cell elements"))
		}
		s := l[0]
		h := s.heap()
		srcRow := sel(st.H[h], src.C[0])
		dstRow := sel(st.H[h], dst.C[0])
		row := vc.copyCells(s, dstRow, dst.C[1], srcRow, src.C[1], nn, constLen(dst.C[2], src.C[2]))
		st.H[h] = vc.def(heapSort(s), sto(st.H[h], dst.C[0], row), h)
		return &SV{T: types.Typ[types.Int], C: []string{nn}}
	case "append":
		return vc.appendBuiltin(f, n, in, c, args)
	case "min", "max":
		x, y := args[0], args[1]
		if !isInteger(x.T) {
			break
		}
		op := "bvult"
		if isSigned(x.T) {
			op = "bvslt"
		}
		if b.Name() == "max" {
			x, y = y, x
		}
		return &SV{T: args[0].T, C: []string{vc.defS(x.sort(), ite(app(op, x.C[0], y.C[0]), x.C[0], y.C[0]), b.Name())}}
	case "print", "println":
		return nil
	case "delete":
		vc.mapDelete(f, n, args[0], args[1])
		return nil
	case "recover":
		return zeroSV(c.Signature().Results().At(0).Type())
	case "clear":
	case "ssa:wrapnilchk":
		return args[0]
	}
	panic(unsupported("builtin " + b.Name()))
}

// constLen returns the smallest compile-time constant among the given length
// terms, or -1.
func constLen(terms ...string) int {
	best := -1
	for _, t := range terms {
		if strings.HasPrefix(t, "#x") && len(t) == 18 {
			var v int64
			fmt.Sscanf(t[2:], "%x", &v)
			if v >= 0 && v <= 64 && (best < 0 || int(v) < best) {
				best = int(v)
			}
		}
	}
	return best
}

// copyCells returns the row dst with cells [dstOff, dstOff+n) replaced by
// src[srcOff ...]. If maxN >= 0 the count is known to be at most maxN and the
// result is quantifier free.
func (vc *VC) copyCells(s Sort, dstRow, dstOff, srcRow, srcOff, n string, maxN int) string {
	if maxN >= 0 && maxN <= 64 {
		row := dstRow
		for k := 0; k < maxN; k++ {
			kk := bvLit(64, int64(k))
			di := app("bvadd", dstOff, kk)
			v := sel(srcRow, app("bvadd", srcOff, kk))
			if n == bvLit(64, int64(maxN)) {
				row = sto(row, di, v)
			} else {
				row = sto(row, di, ite(app("bvslt", kk, n), v, sel(dstRow, di))) // (cells are distinct: the untouched value is the original one)
			}
		}
		return vc.def(rowSort(s), row, "row")
	}
	nr := vc.fresh(rowSort(s), "row")
	// definitional: nr[j] == (dstOff <= j < dstOff+n ? src[srcOff + (j - dstOff)] : dst[j]) for all j;
	// recorded as an instantiable hypothesis (no quantifier is emitted)
	gen := func(j string) string {
		rel := app("bvsub", j, dstOff)
		if p := "(bvadd " + dstOff + " "; strings.HasPrefix(j, p) && strings.HasSuffix(j, ")") {
			rel = j[len(p) : len(j)-1] // (dstOff + x) - dstOff == x
		} else if dstOff == bvLit(64, 0) {
			rel = j
		}
		return eq(sel(nr, j), ite(and(app("bvsle", dstOff, j), app("bvslt", j, app("bvadd", dstOff, n))),
			sel(srcRow, bvAdd(srcOff, rel)), sel(dstRow, j)))
	}
	vc.assume(fmt.Sprintf("(forall ((j!q (_ BitVec 64))) (! %s :pattern ((select %s j!q))))", gen("j!q"), nr))
	vc.hyps = append(vc.hyps, &hyp{gen: gen, base: dstOff})
	return nr
}

func (vc *VC) appendBuiltin(f *Frame, n *Node, in ssa.Instruction, c *ssa.CallCommon, args []*SV) *SV {
	st := n.St
	x, y := args[0], args[1]
	st0 := c.Args[0].Type().Underlying().(*types.Slice)
	l := layout(st0.Elem())
	var ylen, ybase, yoff string
	if isString(c.Args[1].Type()) {
		ybase, yoff, ylen = y.C[0], y.C[1], y.C[2]
	} else {
		ybase, yoff, ylen = y.C[0], y.C[1], y.C[2]
	}
	newLen := vc.defS(SBV64, app("bvadd", x.C[2], ylen), "alen")
	// either in place (fits in cap) or a fresh backing array
	fits := vc.def("Bool", app("bvsle", newLen, x.C[3]), "fits")
	fresh := vc.allocRaw(st, "append")
	ncap := vc.freshS(SBV64, "acap")
	vc.assume(implies(n.Reach, and(app("bvsge", ncap, newLen), app("bvslt", ncap, bvLit(64, 1<<41)))))
	base := vc.defS(SRef, ite(fits, x.C[0], fresh), "abase")
	off := vc.defS(SBV64, ite(fits, x.C[1], bvLit(64, 0)), "aoff")
	cp := vc.defS(SBV64, ite(fits, x.C[3], ncap), "acap")
	es := len(l)
	if es != 1 {
		// multi-cell elements: copy cell-wise
		seen := map[Sort]bool{}
		for _, s := range l {
			if seen[s] {
				continue
			}
			seen[s] = true
			h := s.heap()
			oldRow := sel(st.H[h], x.C[0])
			// fresh object starts as a copy of the old prefix (shifted)
			r1 := vc.copyCells(s, fmt.Sprintf("((as const %s) %s)", rowSort(s), zeroOf(s)), bvLit(64, 0), oldRow, x.C[1], vc.scaleReg(x.C[2], es), -1)
			cur := vc.def(rowSort(s), ite(fits, oldRow, r1), "arow")
			srcRow := sel(st.H[h], ybase)
			r2 := vc.copyCells(s, cur, app("bvadd", off, vc.scaleReg(x.C[2], es)), srcRow, yoff, vc.scaleReg(ylen, es), -1)
			st.H[h] = vc.def(heapSort(s), sto(st.H[h], base, r2), h)
		}
		return &SV{T: c.Args[0].Type(), C: []string{base, off, newLen, cp}, NonNil: true}
	}
	s := l[0]
	h := s.heap()
	oldRow := sel(st.H[h], x.C[0])
	r1 := vc.copyCells(s, fmt.Sprintf("((as const %s) %s)", rowSort(s), zeroOf(s)), bvLit(64, 0), oldRow, x.C[1], x.C[2], constLen(x.C[2]))
	cur := vc.def(rowSort(s), ite(fits, oldRow, r1), "arow")
	srcRow := sel(st.H[h], ybase)
	r2 := vc.copyCells(s, cur, app("bvadd", off, x.C[2]), srcRow, yoff, ylen, constLen(ylen))
	st.H[h] = vc.def(heapSort(s), sto(st.H[h], base, r2), h)
	return &SV{T: c.Args[0].Type(), C: []string{base, off, newLen, cp}, NonNil: true}
}

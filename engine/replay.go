package main

import (
	"encoding/json"
	"os"

	"golang.org/x/tools/go/ssa"
)

func (vc *VC) makeReplay(fc *FuncContract, fn *ssa.Function, params []*SV, st *State) *ReplaySpec {
	return nil
}

func (r *ReplaySpec) addResults(fc *FuncContract, results []*SV, final *State) {}

func (r *ReplaySpec) getValues() []string { return nil }

// writeReplay writes the replay file of a failed obligation and reports
// whether the counterexample was confirmed against the real code.
func writeReplay(eng *Engine, repo, path, prop string, o *Obligation) bool {
	rec := map[string]interface{}{
		"property":   prop,
		"obligation": o.Name,
		"kind":       o.Kind,
		"note":       o.Note,
		"status":     o.Status,
		"solver":     o.Solver,
		"solver_output": truncate(o.Output, 20000),
		"goal_smt":   truncate(o.Goal, 4000),
		"confirmed_on_real_code": false,
	}
	data, _ := json.MarshalIndent(rec, "", " ")
	os.WriteFile(path, data, 0o644)
	return false
}

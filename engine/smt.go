package main

import (
	"fmt"
	"math/big"
	"strings"
)

// Sort kinds of scalar components. Every Go value is flattened into a list of
// scalar SMT components (see value.go); these are their sorts.
type Sort int

const (
	SBool Sort = iota
	SBV8
	SBV16
	SBV32
	SBV64
	SRef  // object identity, (_ BitVec 32)
	STid  // dynamic type id, (_ BitVec 16)
	SBV128
	SBV160
)

const refBits = 32
const tidBits = 16

func (s Sort) String() string {
	switch s {
	case SBool:
		return "Bool"
	case SBV8:
		return "(_ BitVec 8)"
	case SBV16:
		return "(_ BitVec 16)"
	case SBV32:
		return "(_ BitVec 32)"
	case SBV64:
		return "(_ BitVec 64)"
	case SRef:
		return "(_ BitVec 32)"
	case STid:
		return "(_ BitVec 16)"
	case SBV128:
		return "(_ BitVec 128)"
	case SBV160:
		return "(_ BitVec 160)"
	case sRowBytes:
		return "(Array (_ BitVec 64) (_ BitVec 8))"
	}
	panic("sort")
}

func (s Sort) Bits() int {
	switch s {
	case SBV8:
		return 8
	case SBV16:
		return 16
	case SBV32:
		return 32
	case SBV64:
		return 64
	case SRef:
		return refBits
	case STid:
		return tidBits
	case SBV128:
		return 128
	case SBV160:
		return 160
	}
	return 0
}

func bvSort(bits int) Sort {
	switch bits {
	case 8:
		return SBV8
	case 16:
		return SBV16
	case 32:
		return SBV32
	case 64:
		return SBV64
	case 128:
		return SBV128
	case 160:
		return SBV160
	}
	panic(fmt.Sprintf("no bv sort of %d bits", bits))
}

// heapOf names the heap in which a component of this sort is stored.
func (s Sort) heap() string {
	switch s {
	case SBool:
		return "Hbool"
	case SBV8:
		return "H8"
	case SBV16:
		return "H16"
	case SBV32:
		return "H32"
	case SBV64:
		return "H64"
	case SRef:
		return "Href"
	case STid:
		return "Htid"
	}
	panic("heap of sort")
}

func heapSort(s Sort) string {
	return fmt.Sprintf("(Array (_ BitVec 32) (Array (_ BitVec 64) %s))", s)
}

func rowSort(s Sort) string { return fmt.Sprintf("(Array (_ BitVec 64) %s)", s) }

var allHeapSorts = []Sort{SBool, SBV8, SBV16, SBV32, SBV64, SRef, STid}

func bvLit(bits int, v int64) string {
	b := big.NewInt(v)
	return bvLitBig(bits, b)
}

func bvLitBig(bits int, v *big.Int) string {
	m := new(big.Int).Lsh(big.NewInt(1), uint(bits))
	x := new(big.Int).Mod(v, m)
	if bits%4 == 0 {
		s := x.Text(16)
		for len(s) < bits/4 {
			s = "0" + s
		}
		return "#x" + s
	}
	s := x.Text(2)
	for len(s) < bits {
		s = "0" + s
	}
	return "#b" + s
}

func app(op string, args ...string) string {
	return "(" + op + " " + strings.Join(args, " ") + ")"
}

func and(args ...string) string {
	var keep []string
	for _, a := range args {
		if a == "true" {
			continue
		}
		if a == "false" {
			return "false"
		}
		keep = append(keep, a)
	}
	if len(keep) == 0 {
		return "true"
	}
	if len(keep) == 1 {
		return keep[0]
	}
	return app("and", keep...)
}

func or(args ...string) string {
	var keep []string
	for _, a := range args {
		if a == "false" {
			continue
		}
		if a == "true" {
			return "true"
		}
		keep = append(keep, a)
	}
	if len(keep) == 0 {
		return "false"
	}
	if len(keep) == 1 {
		return keep[0]
	}
	return app("or", keep...)
}

func not(a string) string {
	if a == "true" {
		return "false"
	}
	if a == "false" {
		return "true"
	}
	return app("not", a)
}

func implies(a, b string) string {
	if a == "true" {
		return b
	}
	if a == "false" || b == "true" {
		return "true"
	}
	return app("=>", a, b)
}

func ite(c, a, b string) string {
	if c == "true" {
		return a
	}
	if c == "false" {
		return b
	}
	if a == b {
		return a
	}
	return app("ite", c, a, b)
}

func eq(a, b string) string {
	if a == b {
		return "true"
	}
	if _, _, oka := litVal(a); oka {
		if _, _, okb := litVal(b); okb {
			return "false"
		}
	}
	return app("=", a, b)
}

func sel(a, i string) string      { return app("select", a, i) }
func sto(a, i, v string) string   { return app("store", a, i, v) }
func sel2(h, r, i string) string  { return sel(sel(h, r), i) }
func sto2(h, r, i, v string) string { return sto(h, r, sto(sel(h, r), i, v)) }

// resize converts a bit-vector term from `from` bits to `to` bits.
func resize(t string, from, to int, signed bool) string {
	if from == to {
		return t
	}
	if to < from {
		return fmt.Sprintf("((_ extract %d 0) %s)", to-1, t)
	}
	if signed {
		return fmt.Sprintf("((_ sign_extend %d) %s)", to-from, t)
	}
	return fmt.Sprintf("((_ zero_extend %d) %s)", to-from, t)
}

func bool2bv(b string, bits int) string {
	return ite(b, bvLit(bits, 1), bvLit(bits, 0))
}

func litVal(t string) (*big.Int, int, bool) {
	if strings.HasPrefix(t, "#x") {
		v, ok := new(big.Int).SetString(t[2:], 16)
		return v, (len(t) - 2) * 4, ok
	}
	if strings.HasPrefix(t, "#b") {
		v, ok := new(big.Int).SetString(t[2:], 2)
		return v, len(t) - 2, ok
	}
	return nil, 0, false
}

// bvAdd / bvSub / bvMul fold literal operands.
func bvAdd(a, b string) string {
	va, wa, oka := litVal(a)
	vb, _, okb := litVal(b)
	switch {
	case oka && okb:
		return bvLitBig(wa, new(big.Int).Add(va, vb))
	case oka && va.Sign() == 0:
		return b
	case okb && vb.Sign() == 0:
		return a
	}
	return app("bvadd", a, b)
}

func bvSub(a, b string) string {
	va, wa, oka := litVal(a)
	vb, _, okb := litVal(b)
	switch {
	case oka && okb:
		return bvLitBig(wa, new(big.Int).Sub(va, vb))
	case okb && vb.Sign() == 0:
		return a
	}
	return app("bvsub", a, b)
}

func bvMul(a, b string) string {
	va, wa, oka := litVal(a)
	vb, _, okb := litVal(b)
	switch {
	case oka && okb:
		return bvLitBig(wa, new(big.Int).Mul(va, vb))
	case oka && va.Cmp(big.NewInt(1)) == 0:
		return b
	case okb && vb.Cmp(big.NewInt(1)) == 0:
		return a
	}
	return app("bvmul", a, b)
}

func isPow2Lit(t string) bool {
	v, _, ok := litVal(t)
	if !ok || v.Sign() <= 0 {
		return false
	}
	return new(big.Int).And(v, new(big.Int).Sub(v, big.NewInt(1))).Sign() == 0
}

// foldBV evaluates a bit-vector operator on two literals; ok=false when the
// operands are not both literals (or the operator is not handled).
func foldBV(op, a, b string) (string, bool) {
	va, w, oka := litVal(a)
	vb, wb, okb := litVal(b)
	if !oka || !okb || w != wb {
		return "", false
	}
	mod := new(big.Int).Lsh(big.NewInt(1), uint(w))
	sgn := func(v *big.Int) *big.Int {
		if v.Bit(w-1) == 1 {
			return new(big.Int).Sub(v, mod)
		}
		return v
	}
	r := new(big.Int)
	switch op {
	case "bvadd":
		r.Add(va, vb)
	case "bvsub":
		r.Sub(va, vb)
	case "bvmul":
		r.Mul(va, vb)
	case "bvand":
		r.And(va, vb)
	case "bvor":
		r.Or(va, vb)
	case "bvxor":
		r.Xor(va, vb)
	case "bvshl":
		if vb.Cmp(big.NewInt(int64(w))) >= 0 {
			r.SetInt64(0)
		} else {
			r.Lsh(va, uint(vb.Int64()))
		}
	case "bvlshr":
		if vb.Cmp(big.NewInt(int64(w))) >= 0 {
			r.SetInt64(0)
		} else {
			r.Rsh(va, uint(vb.Int64()))
		}
	case "bvudiv", "bvurem":
		if vb.Sign() == 0 {
			return "", false
		}
		if op == "bvudiv" {
			r.Quo(va, vb)
		} else {
			r.Rem(va, vb)
		}
	case "bvsdiv", "bvsrem":
		if vb.Sign() == 0 {
			return "", false
		}
		if op == "bvsdiv" {
			r.Quo(sgn(va), sgn(vb))
		} else {
			r.Rem(sgn(va), sgn(vb))
		}
	case "bvult", "bvule", "bvugt", "bvuge", "bvslt", "bvsle", "bvsgt", "bvsge":
		x, y := va, vb
		if op[2] == 's' {
			x, y = sgn(va), sgn(vb)
		}
		c := x.Cmp(y)
		res := map[string]bool{"lt": c < 0, "le": c <= 0, "gt": c > 0, "ge": c >= 0}[op[3:]]
		if res {
			return "true", true
		}
		return "false", true
	default:
		return "", false
	}
	return bvLitBig(w, r), true
}

// appf is app with literal folding for binary bit-vector operators.
func appf(op string, a, b string) string {
	if r, ok := foldBV(op, a, b); ok {
		return r
	}
	return app(op, a, b)
}

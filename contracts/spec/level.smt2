; Number of non-air blocks held by the block-state container object r (content-determined; the
; counting loop goes through PaletteContainer.Get and the block registry and is not verified).
(declare-fun nonair_count ((_ BitVec 32)) (_ BitVec 16))

package main

import (
	"fmt"
	"golang.org/x/tools/go/packages"
	"golang.org/x/tools/go/ssa"
	"golang.org/x/tools/go/ssa/ssautil"
)

func main() {
	cfg := &packages.Config{Mode: packages.LoadAllSyntax, Dir: "/repo", BuildFlags: []string{"-tags=verif"}}
	pkgs, err := packages.Load(cfg, "./net/packet")
	if err != nil { panic(err) }
	prog, spkgs := ssautil.AllPackages(pkgs, ssa.InstantiateGenerics)
	prog.Build()
	fmt.Println(len(spkgs))
}

package main

import (
	"fmt"
	"go/types"

	"golang.org/x/tools/go/ssa"
)

// ------------------------------------------------------------------ strings

func (vc *VC) stringEq(st *State, x, y *SV) string {
	// content equality as an uninterpreted predicate over (row, off, len), with
	// the facts that are always true: identical descriptors are equal, equal
	// strings have equal length; the empty string equals only the empty string.
	p := vc.uf("str_eq", SBool, sRowBytes, SBV64, SBV64, sRowBytes, SBV64, SBV64)
	rx, ry := sel(st.H["H8"], x.C[0]), sel(st.H["H8"], y.C[0])
	t := vc.def("Bool", app(p, rx, x.C[1], x.C[2], ry, y.C[1], y.C[2]), "streq")
	vc.assume(implies(and(eq(rx, ry), eq(x.C[1], y.C[1]), eq(x.C[2], y.C[2])), t))
	vc.assume(implies(t, eq(x.C[2], y.C[2])))
	vc.assume(implies(and(eq(x.C[2], bvLit(64, 0)), eq(y.C[2], bvLit(64, 0))), t))
	// short constant-length comparison is decided bytewise
	if n := constLen(x.C[2], y.C[2]); n >= 0 && n <= 32 {
		var cs []string
		cs = append(cs, eq(x.C[2], y.C[2]))
		for k := 0; k < n; k++ {
			cs = append(cs, eq(sel(rx, cellIdx(x.C[1], k)), sel(ry, cellIdx(y.C[1], k))))
		}
		if x.C[2] == y.C[2] || true {
			vc.assume(implies(and(eq(x.C[2], bvLit(64, int64(n))), eq(y.C[2], bvLit(64, int64(n)))), eq(t, and(cs...))))
		}
	}
	return t
}

func (vc *VC) stringConcat(st *State, x, y *SV, rt types.Type) *SV {
	ref := vc.allocRaw(st, "concat")
	rx, ry := sel(st.H["H8"], x.C[0]), sel(st.H["H8"], y.C[0])
	zero := fmt.Sprintf("((as const %s) #x00)", rowSort(SBV8))
	r1 := vc.copyCells(SBV8, zero, bvLit(64, 0), rx, x.C[1], x.C[2], constLen(x.C[2]))
	r2 := vc.copyCells(SBV8, r1, x.C[2], ry, y.C[1], y.C[2], constLen(y.C[2]))
	st.H["H8"] = vc.def(heapSort(SBV8), sto(st.H["H8"], ref, r2), "H8")
	return &SV{T: rt, C: []string{ref, bvLit(64, 0), vc.defS(SBV64, app("bvadd", x.C[2], y.C[2]), "clen")}}
}

// ------------------------------------------------------------------ maps
//
// A map object m (a Ref) with a 32- or 64-bit scalar key and a one-component
// scalar value (bool, 32- or 64-bit integer) is modelled by two state
// components: a domain  Md<K> : Ref -> (K -> Bool)  and a value map
// Mv<K>_<V> : Ref -> (K -> V). Other maps are opaque (lookups return
// arbitrary values, updates are forgotten; noted as an assumption).

type mapShape struct {
	ok       bool
	kbits    int
	vsort    Sort
	dom, val string // state keys
}

func mapKeys() map[string]string {
	out := map[string]string{}
	for _, k := range []int{32, 64} {
		ks := bvSort(k).String()
		out[fmt.Sprintf("Md%d", k)] = fmt.Sprintf("(Array (_ BitVec 32) (Array %s Bool))", ks)
		for _, v := range []Sort{SBool, SBV32, SBV64} {
			out[fmt.Sprintf("Mv%d_%s", k, vtag(v))] = fmt.Sprintf("(Array (_ BitVec 32) (Array %s %s))", ks, v)
		}
	}
	return out
}

func vtag(v Sort) string {
	if v == SBool {
		return "b"
	}
	return fmt.Sprint(v.Bits())
}

func shapeOf(t types.Type) mapShape {
	m, ok := t.Underlying().(*types.Map)
	if !ok {
		return mapShape{}
	}
	kl, vl := layout(m.Key()), layout(m.Elem())
	if len(kl) != 1 || len(vl) != 1 {
		return mapShape{}
	}
	kb := kl[0].Bits()
	if kl[0] == SBool || (kb != 32 && kb != 64) || kl[0] == SRef {
		return mapShape{}
	}
	v := vl[0]
	if v != SBool && v != SBV32 && v != SBV64 {
		return mapShape{}
	}
	return mapShape{ok: true, kbits: kb, vsort: v, dom: fmt.Sprintf("Md%d", kb), val: fmt.Sprintf("Mv%d_%s", kb, vtag(v))}
}

func (vc *VC) mapInit(st *State, ref string, t types.Type) {
	sh := shapeOf(t)
	if !sh.ok {
		return
	}
	empty := fmt.Sprintf("((as const (Array %s Bool)) false)", bvSort(sh.kbits))
	st.H[sh.dom] = vc.def(stateSorts[sh.dom], sto(st.H[sh.dom], ref, empty), sh.dom)
}

// mapGet returns (present, value) of m[k] in state st without side effects.
func mapGet(st *State, sh mapShape, m, k string) (string, string) {
	present := sel2(st.H[sh.dom], m, k)
	return present, ite(present, sel2(st.H[sh.val], m, k), zeroOf(sh.vsort))
}

func (vc *VC) mapLookup(f *Frame, n *Node, in *ssa.Lookup, m *SV) *SV {
	st := n.St
	mt := in.X.Type().Underlying().(*types.Map)
	sh := shapeOf(in.X.Type())
	vt := mt.Elem()
	var val *SV
	var present string
	if !sh.ok {
		vc.note("map of shape " + in.X.Type().String() + " is opaque: lookups return arbitrary values")
		val = vc.freshSV(vt, "mapv", st)
		present = vc.freshS(SBool, "mapok")
	} else {
		key := f.get(in.Index, n).C[0]
		p, v := mapGet(st, sh, m.C[0], key)
		present = vc.def("Bool", p, "mapok")
		val = &SV{T: vt, C: []string{vc.defS(sh.vsort, v, "mapv")}}
	}
	if in.CommaOk {
		return tupleSV(in.Type(), val, &SV{T: types.Typ[types.Bool], C: []string{present}})
	}
	return val
}

func (vc *VC) mapUpdate(f *Frame, n *Node, in *ssa.MapUpdate) {
	st := n.St
	m := f.get(in.Map, n)
	vc.nilCheck(f, n, in, m)
	sh := shapeOf(in.Map.Type())
	if !sh.ok {
		vc.note("map of shape " + in.Map.Type().String() + " is opaque: updates are forgotten")
		return
	}
	key := f.get(in.Key, n).C[0]
	val := f.get(in.Value, n)
	st.H[sh.dom] = vc.def(stateSorts[sh.dom], sto2(st.H[sh.dom], m.C[0], key, "true"), sh.dom)
	st.H[sh.val] = vc.def(stateSorts[sh.val], sto2(st.H[sh.val], m.C[0], key, val.C[0]), sh.val)
}

func (vc *VC) mapDelete(f *Frame, n *Node, m, k *SV) {
	st := n.St
	sh := shapeOf(m.T)
	if !sh.ok {
		return
	}
	st.H[sh.dom] = vc.def(stateSorts[sh.dom], sto2(st.H[sh.dom], m.C[0], k.C[0], "false"), sh.dom)
}

func (vc *VC) mapLen(st *State, m *SV) string {
	l := vc.freshS(SBV64, "maplen")
	vc.assume(app("bvsge", l, bvLit(64, 0)))
	return l
}

// ------------------------------------------------------------------ range

func (vc *VC) rangeInit(f *Frame, n *Node, in *ssa.Range) *SV {
	panic(unsupported("range over " + in.X.Type().String() + " in " + f.fn.String()))
}

func (vc *VC) rangeNext(f *Frame, n *Node, in *ssa.Next) *SV {
	panic(unsupported("range/next in " + f.fn.String()))
}

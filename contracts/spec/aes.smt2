; The block cipher is not verified: encrypting one 16-byte block with the key schedule held by
; cipher.Block object b is the uninterpreted function aesE(b, x).
(declare-fun aesE ((_ BitVec 32) (_ BitVec 128)) (_ BitVec 128))

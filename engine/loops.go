package main

import (
	"fmt"
	"go/ast"
	"go/types"
	"sort"
	"strings"

	"golang.org/x/tools/go/ssa"
)

// invEnv builds the environment in which a loop invariant is evaluated:
// the contract's names for receiver/parameters, the source names of the
// parameters and the source names of the loop-carried variables (phi nodes).
func (f *Frame) invEnv(l *Loop, phis map[string]*SV, st *State) *Env {
	env := &Env{vc: f.vc, names: map[string]*SV{}, lets: map[string]Expr{}, st: st, old: f.entry,
		what: fmt.Sprintf("%s loop %d", f.fn.Name(), l.Ordinal)}
	if f.fn.Pkg != nil {
		env.pkg = f.fn.Pkg.Pkg
	}
	for i, p := range f.fn.Params {
		env.names[p.Name()] = f.params[i]
	}
	if f.fc != nil {
		i := 0
		if f.fc.Recv != "" && len(f.params) > 0 {
			env.names[f.fc.Recv] = f.params[0]
			i = 1
		}
		for k, p := range f.fc.Params {
			if i+k < len(f.params) {
				env.names[p] = f.params[i+k]
			}
		}
		for _, lt := range f.fc.Lets {
			env.lets[lt.Name] = lt.E
		}
	}
	for k, v := range phis {
		env.names[k] = v
	}
	// other local variables: the value the debug information associates with
	// the name at the closest point that dominates the loop header
	hn := f.headerNode(l, st)
	env.lookup = func(name string) *SV {
		if hn == nil {
			return nil
		}
		for b := l.Header; b != nil; b = b.Idom() {
			instrs := b.Instrs
			for k := len(instrs) - 1; k >= 0; k-- {
				d, ok := instrs[k].(*ssa.DebugRef)
				if !ok {
					continue
				}
				id, isId := d.Expr.(*ast.Ident)
				if !isId || id.Name != name {
					continue
				}
				if b == l.Header {
					if _, isPhi := d.X.(*ssa.Phi); !isPhi {
						continue // defined inside the loop body part of the header
					}
				}
				if l.Body[b] && b != l.Header {
					continue
				}
				defer func() { recover() }()
				v := f.get(d.X, hn)
				if d.IsAddr {
					pt, isPtr := v.T.Underlying().(*types.Pointer)
					if !isPtr {
						return nil
					}
					return f.vc.loadPure(env.st, v, pt.Elem())
				}
				return v
			}
		}
		return nil
	}
	return env
}

// headerNode finds the node of the loop header whose execution is in progress.
func (f *Frame) headerNode(l *Loop, st *State) *Node {
	var best *Node
	for _, n := range f.g.Order {
		if n.B == l.Header && n.Reach != "" {
			best = n
		}
	}
	return best
}

func headerPhis(l *Loop) []*ssa.Phi {
	var out []*ssa.Phi
	for _, in := range l.Header.Instrs {
		if p, ok := in.(*ssa.Phi); ok {
			out = append(out, p)
		} else {
			break
		}
	}
	return out
}

// cutLoop is called at the header of an invariant-annotated loop after its
// phi nodes have been given their entry values.
func (vc *VC) cutLoop(f *Frame, l *Loop, n *Node) {
	phis := headerPhis(l)
	entryVals := map[string]*SV{}
	for _, p := range phis {
		if p.Comment != "" {
			entryVals[p.Comment] = f.get(p, n)
		}
	}
	env := f.invEnv(l, entryVals, n.St)
	env.loopNext = n.St.H["next"]
	if f.loopNexts == nil {
		f.loopNexts = map[string]string{}
	}
	f.loopNexts[loopKey(l, n)] = n.St.H["next"]
	for i, c := range l.Ann.Inv {
		for _, pe := range splitConst(c.E) {
			vc.oblige("loop-inv-entry", fmt.Sprintf("invariant %d of loop %d of %s does not hold on entry: %s", i, l.Ordinal, f.fn.Name(), c.Text),
				n.Reach, env.evalGoal(pe), append([]string{"@loop"}, c.Tags...)...)
		}
	}
	// havoc loop-carried values and everything the body may modify
	newVals := map[string]*SV{}
	for _, p := range phis {
		old := f.get(p, n)
		nv := vc.freshSV(p.Type(), "lc_"+p.Comment, n.St)
		nv.Cands, nv.Exact, nv.NonNil, nv.Fn = old.Cands, false, old.NonNil, nil
		if !isInterface(p.Type()) {
			nv.Exact = old.Exact
		}
		f.setVal(p, n, nv)
		if p.Comment != "" {
			newVals[p.Comment] = nv
		}
	}
	if l.Ann.HasMod {
		// declared loop frame: havoc exactly the declared locations, the locals
		// the body touches and allocation; every iteration is checked against it
		targets := vc.evalModClauses(l.Ann.Mod, env)
		targets = append(targets, vc.loopLocals(f, l, n)...)
		entryNext := n.St.H["next"]
		vc.havocTargets(n.St, targets)
		nn := vc.fresh(stateSorts["next"], "next")
		vc.assume(and(app("bvuge", nn, n.St.H["next"]), app("bvult", nn, bvLit(refBits, 1<<30))))
		n.St.H["next"] = nn
		head := n.St.clone()
		head.H["next"] = entryNext
		if f.loopFrames == nil {
			f.loopFrames = map[string]*loopFrame{}
		}
		f.loopFrames[loopKey(l, n)] = &loopFrame{head: head, targets: targets}
	} else {
		eff := vc.eng.loopEffects(l)
		keys := make([]string, 0, len(eff))
		for k := range eff {
			keys = append(keys, k)
		}
		sort.Strings(keys)
		for _, k := range keys {
			if k == "next" {
				nn := vc.fresh(stateSorts[k], "next")
				vc.assume(and(app("bvuge", nn, n.St.H[k]), app("bvult", nn, bvLit(refBits, 1<<30))))
				n.St.H[k] = nn
				continue
			}
			n.St.H[k] = vc.fresh(stateSorts[k], "loop_"+k)
		}
	}
	env2 := f.invEnv(l, newVals, n.St)
	env2.loopNext = f.loopNexts[loopKey(l, n)]
	for _, c := range l.Ann.Inv {
		env2.assumeClause(n.Reach, c.E)
	}
	for _, h := range l.Ann.Hints {
		v := env2.eval(h.E)
		if vc.hints == nil {
			vc.hints = map[string][]string{}
		}
		if v.Untyped != nil {
			vc.hints[h.Name] = append(vc.hints[h.Name], bvLitBig(64, v.Untyped), bvLitBig(32, v.Untyped))
		} else {
			vc.hints[h.Name] = append(vc.hints[h.Name], vc.defS(v.sort(), v.term(), "hint_"+h.Name))
		}
	}
	if sp := l.Ann.Split; sp != nil {
		// loop-level case split: one VC per value of the expression at the loop head
		key := fmt.Sprintf("loop%d:%s", l.Ordinal, sp.Text)
		val, have := vc.valDecisions[key]
		if !have {
			var vals []int64
			for v := sp.Lo; v <= sp.Hi; v++ {
				vals = append(vals, v)
			}
			panic(needDecision{key: key, values: vals})
		}
		sv := env2.eval(sp.E)
		lit := bvLit(sv.sort().Bits(), val)
		if val == sp.Lo {
			// the split must be exhaustive: the invariant implies lo <= E <= hi (checked once, in the first case)
			le, ge := "bvsle", "bvsge"
			if !sv.signed() {
				le, ge = "bvule", "bvuge"
			}
			vc.oblige("split-exhaustive", fmt.Sprintf("case split of loop %d: the invariant implies %d <= %s <= %d", l.Ordinal, sp.Lo, sp.Text, sp.Hi), n.Reach,
				and(app(ge, sv.term(), bvLit(sv.sort().Bits(), sp.Lo)), app(le, sv.term(), bvLit(sv.sort().Bits(), sp.Hi))), "@split")
		}
		vc.assume(implies(n.Reach, eq(sv.term(), lit)))
		if isAtom(sv.term()) || strings.HasPrefix(sv.term(), "(select (select ") {
			vc.consts[sv.term()] = lit
		}
	}
	if l.Ann.Decr != nil {
		// termination measure at the loop head (signed 64-bit)
		m := env2.eval(l.Ann.Decr.E)
		if f.measures == nil {
			f.measures = map[*Loop]string{}
		}
		f.measures[l] = vc.defS(SBV64, env2.toBV64(m), "measure")
	}
	vc.cover("cover-loop", fmt.Sprintf("loop %d of %s: invariant satisfiable at an arbitrary iteration", l.Ordinal, f.fn.Name()), n.Reach)
}

type loopFrame struct {
	head    *State
	targets []modTarget
}

func loopKey(l *Loop, n *Node) string {
	// the header instance: iteration counters of the enclosing loops
	var sb strings.Builder
	fmt.Fprintf(&sb, "L%d", l.Ordinal)
	for o, it := range n.Iters {
		if o != l {
			fmt.Fprintf(&sb, "_%d:%d", o.Ordinal, it)
		}
	}
	return sb.String()
}

// loopLocals: local variables (allocations made outside the loop) that the
// loop body refers to are havocked as whole objects.
func (vc *VC) loopLocals(f *Frame, l *Loop, n *Node) []modTarget {
	var out []modTarget
	// root(v): the allocation (made outside the loop) a pointer value is derived from
	var root func(v ssa.Value, depth int) *ssa.Alloc
	root = func(v ssa.Value, depth int) *ssa.Alloc {
		if depth > 8 {
			return nil
		}
		switch x := v.(type) {
		case *ssa.Alloc:
			if l.Body[x.Block()] {
				return nil
			}
			return x
		case *ssa.FieldAddr:
			return root(x.X, depth+1)
		case *ssa.IndexAddr:
			return root(x.X, depth+1)
		case *ssa.Slice:
			return root(x.X, depth+1)
		case *ssa.ChangeType:
			return root(x.X, depth+1)
		case *ssa.Convert:
			return root(x.X, depth+1)
		}
		return nil
	}
	written := map[*ssa.Alloc]bool{}
	for b := range l.Body {
		for _, in := range b.Instrs {
			switch x := in.(type) {
			case *ssa.UnOp, *ssa.FieldAddr, *ssa.IndexAddr, *ssa.Slice, *ssa.ChangeType, *ssa.Convert, *ssa.DebugRef:
				continue // reads and address computations
			case *ssa.Store:
				if a := root(x.Addr, 0); a != nil {
					written[a] = true
				}
				if a := root(x.Val, 0); a != nil {
					written[a] = true // the pointer escapes
				}
				continue
			}
			for _, op := range in.Operands(nil) {
				if *op == nil {
					continue
				}
				if a := root(*op, 0); a != nil {
					written[a] = true // passed to a call / captured: may be written through
				}
			}
		}
	}
	var allocs []*ssa.Alloc
	for a := range written {
		allocs = append(allocs, a)
	}
	sort.Slice(allocs, func(i, j int) bool { return allocs[i].Pos() < allocs[j].Pos() })
	for _, a := range allocs {
		ptr := f.get(a, n)
		et := a.Type().Underlying().(*types.Pointer).Elem()
		ss := map[Sort]bool{}
		lay := layout(et)
		if arr, ok := et.Underlying().(*types.Array); ok {
			lay = layout(arr.Elem())
		}
		for _, s := range lay {
			if !ss[s] {
				ss[s] = true
				out = append(out, modTarget{kind: "object", heap: s.heap(), sort: s, ref: ptr.C[0], what: "local " + a.Comment})
			}
		}
	}
	return out
}

// checkInvariant is called on a back edge of an invariant-annotated loop.
func (vc *VC) checkInvariant(f *Frame, l *Loop, from *Node, predIdx int, cond, what string) {
	var hn *Node
	for _, cand := range f.g.Order {
		if cand.B == l.Header {
			same := true
			for o, it := range cand.Iters {
				if o != l && from.Iters[o] != it {
					same = false
				}
			}
			if same {
				hn = cand
			}
		}
	}
	if l.Ann.HasMod {
		// per-iteration frame check against the loop's modifies clause
		if hn != nil {
			if lf := f.loopFrames[loopKey(l, hn)]; lf != nil {
				goals := vc.frameGoals(lf.head, from.St, lf.targets)
				for _, h := range stateKeys {
					if g, ok := goals[h]; ok {
						vc.oblige("loop-frame", fmt.Sprintf("loop %d of %s modifies %s outside its 'loop modifies' clause", l.Ordinal, f.fn.Name(), h), cond, g, "@loop", "@frame")
					}
				}
			}
		}
	}
	vals := map[string]*SV{}
	for _, p := range headerPhis(l) {
		if p.Comment != "" {
			vals[p.Comment] = f.get(p.Edges[predIdx], from)
		}
	}
	env := f.invEnv(l, vals, from.St)
	if hn != nil {
		env.loopNext = f.loopNexts[loopKey(l, hn)]
	}
	if l.Ann.Decr != nil && f.measures[l] != "" {
		m1 := env.toBV64(env.eval(l.Ann.Decr.E))
		m0 := f.measures[l]
		vc.oblige("loop-decreases", fmt.Sprintf("loop %d of %s: the termination measure (%s) does not decrease or is not bounded below", l.Ordinal, f.fn.Name(), l.Ann.Decr.Text),
			cond, and(app("bvslt", m1, m0), app("bvsge", m0, bvLit(64, 0))), "@loop", "@progress")
	}
	for i, c := range l.Ann.Inv {
		for _, pe := range splitConst(c.E) {
			vc.obligeNoAssumeKind("loop-inv-"+what, fmt.Sprintf("invariant %d of loop %d of %s is not %s by the body: %s", i, l.Ordinal, f.fn.Name(), what, c.Text),
				cond, env.evalGoal(pe), append([]string{"@loop"}, c.Tags...)...)
		}
	}
}

// ---------------------------------------------------------------- effects

type effects map[string]bool

func allEffects() effects {
	e := effects{}
	for _, k := range stateKeys {
		e[k] = true
	}
	return e
}

func (e effects) addLayout(t types.Type) {
	for _, s := range layout(t) {
		e[s.heap()] = true
	}
}

func (e effects) union(o effects) {
	for k := range o {
		e[k] = true
	}
}

var modelEffects = map[string][]string{
	"io.ReadFull": {"H8", "Spos", "Sfail", "next"},
	"errors.New":  {"next"},
	"fmt.Errorf":  {"next"},
	"errors.Is":   {},
	"fmt.Sprintf": {"next"},
	"fmt.Sprint":  {"next"},
	"strconv.Itoa": {"next"},
	"math.Float32bits": {}, "math.Float32frombits": {}, "math.Float64bits": {}, "math.Float64frombits": {},
}

var ifaceEffects = map[string][]string{
	"Read":     {"H8", "Spos", "Sfail", "next"},
	"ReadByte": {"Spos", "Sfail", "next"},
	"Write":    {"Wout", "Wlen", "Wfail", "next"},
	"Error":    {"next"},
}

func (eng *Engine) loopEffects(l *Loop) effects {
	e := effects{}
	for b := range l.Body {
		eng.blockEffects(b, e, map[*ssa.Function]bool{})
	}
	return e
}

func (eng *Engine) funcEffects(fn *ssa.Function, visiting map[*ssa.Function]bool) effects {
	if visiting[fn] {
		return allEffects()
	}
	visiting[fn] = true
	defer delete(visiting, fn)
	e := effects{}
	for _, b := range fn.Blocks {
		eng.blockEffects(b, e, visiting)
	}
	return e
}

func (eng *Engine) blockEffects(b *ssa.BasicBlock, e effects, visiting map[*ssa.Function]bool) {
	for _, in := range b.Instrs {
		switch in := in.(type) {
		case *ssa.Store:
			e.addLayout(in.Val.Type())
		case *ssa.Alloc:
			e["next"] = true
			et := in.Type().Underlying().(*types.Pointer).Elem()
			if a, ok := et.Underlying().(*types.Array); ok {
				e.addLayout(a.Elem())
			} else {
				e.addLayout(et)
			}
		case *ssa.MakeSlice:
			e["next"] = true
			e.addLayout(in.Type().Underlying().(*types.Slice).Elem())
		case *ssa.MakeInterface:
			if !isPointerLike(in.X.Type()) && !isInterface(in.X.Type()) {
				e["next"] = true
				e.addLayout(in.X.Type())
			}
		case *ssa.MakeMap:
			e["next"] = true
			if sh := shapeOf(in.Type()); sh.ok {
				e[sh.dom] = true
			}
		case *ssa.MapUpdate:
			if sh := shapeOf(in.Map.Type()); sh.ok {
				e[sh.dom] = true
				for _, vk := range sh.vals {
					e[vk] = true
				}
			}
		case *ssa.Convert:
			if isString(in.X.Type()) != isString(in.Type()) {
				e["next"] = true
				e["H8"] = true
			}
		case *ssa.BinOp:
			if isString(in.X.Type()) {
				e["next"] = true
				e["H8"] = true
			}
		case *ssa.Call:
			eng.callEffects(&in.Call, e, visiting)
		case *ssa.Defer:
			eng.callEffects(&in.Call, e, visiting)
		}
	}
}

func (eng *Engine) callEffects(c *ssa.CallCommon, e effects, visiting map[*ssa.Function]bool) {
	if c.IsInvoke() {
		if fx, ok := ifaceEffects[c.Method.Name()]; ok {
			for _, k := range fx {
				e[k] = true
			}
			// the receiver may also be a known repository type; be conservative
			// only when the static type is not a plain io interface
			return
		}
		e.union(allEffects())
		return
	}
	switch callee := c.Value.(type) {
	case *ssa.Builtin:
		switch callee.Name() {
		case "copy":
			e.addLayout(c.Args[0].Type().Underlying().(*types.Slice).Elem())
		case "append":
			e["next"] = true
			e.addLayout(c.Args[0].Type().Underlying().(*types.Slice).Elem())
		case "delete":
			e.union(allEffects())
		}
		return
	case *ssa.Function:
		eng.staticEffects(callee, e, visiting)
		return
	case *ssa.MakeClosure:
		eng.staticEffects(callee.Fn.(*ssa.Function), e, visiting)
		return
	}
	e.union(allEffects())
}

func (eng *Engine) staticEffects(fn *ssa.Function, e effects, visiting map[*ssa.Function]bool) {
	name := fn.String()
	if fn.Origin() != nil {
		name = fn.Origin().String()
	}
	if _, ok := models[name]; ok {
		if fx, ok := modelEffects[name]; ok {
			for _, k := range fx {
				e[k] = true
			}
			return
		}
		if len(name) > 16 && name[:16] == "(encoding/binary" {
			e["H8"] = true
			return
		}
		e.union(allEffects())
		return
	}
	fc := eng.contractFor(fn)
	if fc != nil && !fc.Inline {
		if !fc.HasMod {
			e.union(allEffects())
			return
		}
		e["next"] = true
		for _, m := range fc.Modifies {
			eng.modEffects(fn, fc, m, e)
		}
		return
	}
	if fn.Blocks != nil && eng.inlinable(fn) {
		e.union(eng.funcEffects(fn, visiting))
		return
	}
	e.union(allEffects())
}

// modEffects maps one modifies clause to the heaps it may touch, using only
// the static types of the callee's parameters.
func (eng *Engine) modEffects(fn *ssa.Function, fc *FuncContract, m Clause, e effects) {
	typeOf := func(x Expr) types.Type {
		id, ok := x.(Ident)
		if !ok {
			return nil
		}
		i := 0
		if fc.Recv != "" {
			if id.Name == fc.Recv {
				return fn.Params[0].Type()
			}
			i = 1
		}
		for k, p := range fc.Params {
			if p == id.Name && i+k < len(fn.Params) {
				return fn.Params[i+k].Type()
			}
		}
		return nil
	}
	switch x := m.E.(type) {
	case Unary:
		if t := typeOf(x.X); t != nil {
			if p, ok := t.Underlying().(*types.Pointer); ok {
				e.addLayout(p.Elem())
				return
			}
		}
	case SliceE:
		if t := typeOf(x.X); t != nil {
			switch u := t.Underlying().(type) {
			case *types.Slice:
				e.addLayout(u.Elem())
				return
			case *types.Pointer:
				if a, ok := u.Elem().Underlying().(*types.Array); ok {
					e.addLayout(a.Elem())
					return
				}
			}
		}
	case FieldE:
		if t := typeOf(x.X); t != nil {
			if p, ok := t.Underlying().(*types.Pointer); ok {
				if st, ok := p.Elem().Underlying().(*types.Struct); ok {
					for i := 0; i < st.NumFields(); i++ {
						if st.Field(i).Name() == x.Name {
							e.addLayout(st.Field(i).Type())
							return
						}
					}
				}
			}
		}
	case CallE:
		switch x.Fn {
		case "Spos", "Sfail", "Wlen", "Wfail", "Wout", "Gh":
			e[x.Fn] = true
			return
		case "stream":
			e["Spos"], e["Sfail"] = true, true
			return
		case "file":
			e["Fdata"], e["Flen"], e["Fpos"] = true, true, true
			return
		case "Fpos", "Flen":
			e[x.Fn] = true
			return
		case "map":
			for k := range mapKeys() {
				e[k] = true
			}
			return
		case "sink":
			e["Wout"], e["Wlen"], e["Wfail"] = true, true, true
			return
		}
	}
	e.union(allEffects())
}

; LEB128 (VarInt / VarLong) specification functions. Written from the protocol
; definition, not from the code: little-endian base-128 groups of the two's
; complement bit pattern, continuation bit 0x80 on every byte but the last,
; minimal length.

(define-fun leb32_len ((x (_ BitVec 32))) (_ BitVec 64)
  (ite (bvult x #x00000080) #x0000000000000001
  (ite (bvult x #x00004000) #x0000000000000002
  (ite (bvult x #x00200000) #x0000000000000003
  (ite (bvult x #x10000000) #x0000000000000004
                            #x0000000000000005)))))

(define-fun leb32_byte ((x (_ BitVec 32)) (k (_ BitVec 64))) (_ BitVec 8)
  (bvor ((_ extract 7 0) (bvand (bvlshr x (bvmul #x00000007 ((_ extract 31 0) k))) #x0000007f))
        (ite (bvslt k (bvsub (leb32_len x) #x0000000000000001)) #x80 #x00)))

; length of the continuation run starting at a[i], capped at 6
(define-fun leb32_run ((a (Array (_ BitVec 64) (_ BitVec 8))) (i (_ BitVec 64))) (_ BitVec 64)
  (ite (bvult (select a i) #x80) #x0000000000000001
  (ite (bvult (select a (bvadd i #x0000000000000001)) #x80) #x0000000000000002
  (ite (bvult (select a (bvadd i #x0000000000000002)) #x80) #x0000000000000003
  (ite (bvult (select a (bvadd i #x0000000000000003)) #x80) #x0000000000000004
  (ite (bvult (select a (bvadd i #x0000000000000004)) #x80) #x0000000000000005
                                                            #x0000000000000006))))))

(define-fun leb32_grp ((a (Array (_ BitVec 64) (_ BitVec 8))) (i (_ BitVec 64)) (n (_ BitVec 64)) (k (_ BitVec 64))) (_ BitVec 32)
  (ite (bvslt k n)
       (bvshl ((_ zero_extend 24) (bvand (select a (bvadd i k)) #x7f)) (bvmul #x00000007 ((_ extract 31 0) k)))
       #x00000000))

; value of the n-byte encoding at a[i] (bits above 31 are dropped, as in the protocol)
(define-fun leb32_val ((a (Array (_ BitVec 64) (_ BitVec 8))) (i (_ BitVec 64)) (n (_ BitVec 64))) (_ BitVec 32)
  (bvor (leb32_grp a i n #x0000000000000000) (leb32_grp a i n #x0000000000000001) (leb32_grp a i n #x0000000000000002)
        (leb32_grp a i n #x0000000000000003) (leb32_grp a i n #x0000000000000004)))

(define-fun leb64_len ((x (_ BitVec 64))) (_ BitVec 64)
  (ite (bvult x #x0000000000000080) #x0000000000000001
  (ite (bvult x #x0000000000004000) #x0000000000000002
  (ite (bvult x #x0000000000200000) #x0000000000000003
  (ite (bvult x #x0000000010000000) #x0000000000000004
  (ite (bvult x #x0000000800000000) #x0000000000000005
  (ite (bvult x #x0000040000000000) #x0000000000000006
  (ite (bvult x #x0002000000000000) #x0000000000000007
  (ite (bvult x #x0100000000000000) #x0000000000000008
  (ite (bvult x #x8000000000000000) #x0000000000000009
                                    #x000000000000000a))))))))))

(define-fun leb64_byte ((x (_ BitVec 64)) (k (_ BitVec 64))) (_ BitVec 8)
  (bvor ((_ extract 7 0) (bvand (bvlshr x (bvmul #x0000000000000007 k)) #x000000000000007f))
        (ite (bvslt k (bvsub (leb64_len x) #x0000000000000001)) #x80 #x00)))

(define-fun leb64_run ((a (Array (_ BitVec 64) (_ BitVec 8))) (i (_ BitVec 64))) (_ BitVec 64)
  (ite (bvult (select a i) #x80) #x0000000000000001
  (ite (bvult (select a (bvadd i #x0000000000000001)) #x80) #x0000000000000002
  (ite (bvult (select a (bvadd i #x0000000000000002)) #x80) #x0000000000000003
  (ite (bvult (select a (bvadd i #x0000000000000003)) #x80) #x0000000000000004
  (ite (bvult (select a (bvadd i #x0000000000000004)) #x80) #x0000000000000005
  (ite (bvult (select a (bvadd i #x0000000000000005)) #x80) #x0000000000000006
  (ite (bvult (select a (bvadd i #x0000000000000006)) #x80) #x0000000000000007
  (ite (bvult (select a (bvadd i #x0000000000000007)) #x80) #x0000000000000008
  (ite (bvult (select a (bvadd i #x0000000000000008)) #x80) #x0000000000000009
  (ite (bvult (select a (bvadd i #x0000000000000009)) #x80) #x000000000000000a
                                                            #x000000000000000b)))))))))))

(define-fun leb64_grp ((a (Array (_ BitVec 64) (_ BitVec 8))) (i (_ BitVec 64)) (n (_ BitVec 64)) (k (_ BitVec 64))) (_ BitVec 64)
  (ite (bvslt k n)
       (bvshl ((_ zero_extend 56) (bvand (select a (bvadd i k)) #x7f)) (bvmul #x0000000000000007 k))
       #x0000000000000000))

(define-fun leb64_val ((a (Array (_ BitVec 64) (_ BitVec 8))) (i (_ BitVec 64)) (n (_ BitVec 64))) (_ BitVec 64)
  (bvor (leb64_grp a i n #x0000000000000000) (leb64_grp a i n #x0000000000000001) (leb64_grp a i n #x0000000000000002)
        (leb64_grp a i n #x0000000000000003) (leb64_grp a i n #x0000000000000004) (leb64_grp a i n #x0000000000000005)
        (leb64_grp a i n #x0000000000000006) (leb64_grp a i n #x0000000000000007) (leb64_grp a i n #x0000000000000008)
        (leb64_grp a i n #x0000000000000009)))

package main

import (
	"fmt"
	"go/types"
	"os"
	"sort"
	"strings"
)

// State maps each heap / ghost map to the name of the SMT term that holds its
// current value.
type State struct {
	H map[string]string
}

func (s *State) clone() *State {
	n := &State{H: make(map[string]string, len(s.H))}
	for k, v := range s.H {
		n.H[k] = v
	}
	return n
}

// stateSorts lists every component of the state with its SMT sort.
var stateSorts = map[string]string{
	"next":  "(_ BitVec 32)",
	"Spos":  "(Array (_ BitVec 32) (_ BitVec 64))",
	"Sfail": "(Array (_ BitVec 32) Bool)",
	"Wout":  "(Array (_ BitVec 32) (Array (_ BitVec 64) (_ BitVec 8)))",
	"Wlen":  "(Array (_ BitVec 32) (_ BitVec 64))",
	"Wfail": "(Array (_ BitVec 32) Bool)",
	"Gh":    "(Array (_ BitVec 32) (_ BitVec 64))", // generic ghost counters (rootHdr, ...)
	"Fdata": "(Array (_ BitVec 32) (Array (_ BitVec 64) (_ BitVec 8)))", // ghost files: content
	"Flen":  "(Array (_ BitVec 32) (_ BitVec 64))",
	"Fpos":  "(Array (_ BitVec 32) (_ BitVec 64))",
}

var stateKeys []string

func init() {
	for _, s := range allHeapSorts {
		stateSorts[s.heap()] = heapSort(s)
	}
	for k, v := range mapKeys() {
		stateSorts[k] = v
	}
	for k := range stateSorts {
		stateKeys = append(stateKeys, k)
	}
	sort.Strings(stateKeys)
}

// Obligation is one proof obligation: the script prefix up to Prefix lines plus
// the negated Goal must be unsat (or, for covers, the prefix plus Goal must be sat).
type Obligation struct {
	Name    string
	Kind    string
	Goal    string
	Prefix  int
	Tags    []string
	Cover   bool
	Bounded bool
	Note    string // human readable source of the obligation
	VC      *VC
	// result
	Status  string // discharged, refuted, undischarged, cover-ok, cover-failed
	Solver  string
	Ms      int64
	Model   string
	Output  string
	Replay  *ReplaySpec
	Pre     bool     // already decided during VC generation
	Extra   []string // instances of quantified hypotheses relevant to this goal
}

type ReplaySpec struct {
	Contract *FuncContract
	inputs   []rpInput
	outputs  []rpOutput
	final    *State
}

// VC is one verification script: the symbolic execution of one function (or
// one case of a split) against its contract.
type VC struct {
	eng      *Engine
	Name     string
	lines    []string
	hdr      []string // declarations that must precede every query of this VC
	hdrCover []string // the same for cover (satisfiability) queries: exact definitions instead of axiomatised abstractions
	obls     []*Obligation
	n        int
	counts   map[string]int
	Assumed  map[string]bool
	Bounded  bool
	maxDepth int
	Contract *FuncContract
	replay   *ReplaySpec
	entryH8  string
	defOf    map[string]string // define-fun name -> its term
	sortOf   map[string]string // declared / defined name -> sort
	consts   map[string]string // heap locations known to hold a literal
	allocRefs map[string]bool // ref terms of objects allocated in this VC
	shadow   map[string]*SV  // interface values stored at constant cells of local objects (metadata only)
	guardEnv *Env // entry-state environment for the file-write guard of the contract
	lastRSA  *rsaCall // the most recent rsa.VerifyPKCS1v15 call (ghost capture for contracts)
	lastSha  *shaCall // the most recent hash.Sum result (ghost capture)
	lastHex  string   // 160-bit value of the most recent 20-byte argument of a hexadecimal rendering
	boxedTypes []types.Type // concrete types put into interfaces so far (candidates for loaded interface values)
	hints    map[string][]string // contract-provided instantiation terms per bound-variable name
	hyps     []*hyp // quantified hypotheses, instantiated per obligation
	instantiating bool
	bound    []string // names of quantifier-bound variables currently in scope
	skR, skI string   // skolem constants of the frame obligations
	valDecisions map[string]int64 // forced values of split expressions (loop-level case splits)
	decisions map[string]bool // forced truth values of opaque predicates (VC-level case split)
	entry    *State
	scaled   map[int][]string // index terms scaled by an element size (see scaleReg)
	stable   []modTarget // cells assumed unchanged by calls of unknown effect ('stable' contract lines)
	addrRefs []string // objects whose address was taken as an integer (pairwise disjoint extents)
	goalHints map[string][]string // instantiation terms contributed by the goal being built (cleared per obligation)
	exhaustOnly bool // this VC only checks that the contract-level case splits cover the preconditions
}

func (vc *VC) emit(s string) { vc.lines = append(vc.lines, s) }
func (vc *VC) emitHeader(s string) { vc.hdr = append(vc.hdr, s); vc.hdrCover = append(vc.hdrCover, s) }

// emitHeaderAbs adds a header line used by proof queries only (not by covers).
func (vc *VC) emitHeaderAbs(s string) { vc.hdr = append(vc.hdr, s) }

func (vc *VC) freshName(hint string) string {
	vc.n++
	hint = strings.Map(func(r rune) rune {
		if (r >= 'a' && r <= 'z') || (r >= 'A' && r <= 'Z') || (r >= '0' && r <= '9') || r == '_' {
			return r
		}
		return '_'
	}, hint)
	return fmt.Sprintf("%s!%d", hint, vc.n)
}

func isAtom(t string) bool {
	return !strings.ContainsAny(t, " (")
}

// def names a term (define-fun) unless it is already atomic.
func (vc *VC) def(sort, term, hint string) string {
	if isAtom(term) {
		return term
	}
	n := vc.freshName(hint)
	vc.emit(fmt.Sprintf("(define-fun %s () %s %s)", n, sort, term))
	if vc.defOf == nil {
		vc.defOf = map[string]string{}
	}
	vc.defOf[n] = term
	vc.setSort(n, sort)
	return n
}

// expand looks through a define-fun name.
func (vc *VC) expand(t string) string {
	if d, ok := vc.defOf[t]; ok {
		return d
	}
	return t
}

func (vc *VC) defS(s Sort, term, hint string) string { return vc.def(s.String(), term, hint) }

func (vc *VC) fresh(sort, hint string) string {
	n := vc.freshName(hint)
	vc.emit(fmt.Sprintf("(declare-const %s %s)", n, sort))
	vc.setSort(n, sort)
	return n
}

func (vc *VC) freshS(s Sort, hint string) string { return vc.fresh(s.String(), hint) }

func (vc *VC) assume(t string) {
	if t == "true" {
		return
	}
	vc.emit("(assert " + t + ")")
}

func (vc *VC) note(assumption string) { vc.Assumed[assumption] = true }

// oblige records an obligation "reach => goal" and then assumes it (execution
// continues only if the check passed).
func (vc *VC) oblige(kind, note, reach, goal string, tags ...string) *Obligation {
	full := implies(reach, goal)
	if full == "true" {
		return nil
	}
	extra := vc.instantiateFor(full)
	vc.goalHints = nil
	idx := vc.counts[kind]
	vc.counts[kind]++
	o := &Obligation{
		Name:    fmt.Sprintf("%s::%s[%d]", vc.Name, kind, idx),
		Kind:    kind,
		Goal:    full,
		Prefix:  len(vc.lines),
		Tags:    tags,
		Note:    note,
		VC:      vc,
		Bounded: vc.Bounded,
		Replay:  vc.replay,
		Extra:   extra,
	}
	vc.obls = append(vc.obls, o)
	if !strings.Contains(full, "(forall ") && !strings.Contains(full, "(exists ") {
		// execution continues only if the check passed; quantified goals are not
		// added to the context (they would turn every later query into a
		// quantified one)
		vc.assume(full)
	}
	return o
}

func (vc *VC) cover(kind, note, cond string) {
	idx := vc.counts[kind]
	vc.counts[kind]++
	vc.obls = append(vc.obls, &Obligation{
		Name: fmt.Sprintf("%s::%s[%d]", vc.Name, kind, idx), Kind: kind, Goal: cond,
		Prefix: len(vc.lines), Cover: true, Note: note, VC: vc, Tags: []string{"@cover"},
	})
}

// freshSV makes an unconstrained value of Go type t.
func (vc *VC) freshSV(t types.Type, hint string, st *State) *SV {
	l := layout(t)
	v := &SV{T: t, C: make([]string, len(l))}
	for i, s := range l {
		v.C[i] = vc.freshS(s, hint)
		if s == SRef && st != nil {
			vc.assume(app("bvult", v.C[i], st.H["next"]))
		}
		if s == STid {
			// values of unknown dynamic type are not one of the repository types
			// the translator dispatches on (those get ids below 0x8000)
			vc.assume(or(eq(v.C[i], bvLit(tidBits, 0)), app("bvuge", v.C[i], bvLit(tidBits, 0x8000))))
		}
	}
	vc.constrainSV(v)
	return v
}

// constrainSV adds the type invariants of a freshly introduced value: slices
// have 0 <= len <= cap, offsets/lengths are below 2^62.
func (vc *VC) constrainSV(v *SV) {
	var walk func(t types.Type, c []string)
	walk = func(t types.Type, c []string) {
		switch u := t.Underlying().(type) {
		case *types.Slice:
			vc.assume(and(app("bvsle", bvLit(64, 0), c[2]), app("bvsle", c[2], c[3]),
				app("bvslt", c[3], bvLit(64, 1<<40)), app("bvsle", bvLit(64, 0), c[1]), app("bvslt", c[1], bvLit(64, 1<<40)),
				implies(eq(c[0], bvLit(refBits, 0)), and(eq(c[3], bvLit(64, 0)), eq(c[1], bvLit(64, 0))))))
		case *types.Basic:
			if u.Info()&types.IsString != 0 {
				vc.assume(and(app("bvsle", bvLit(64, 0), c[2]), app("bvslt", c[2], bvLit(64, 1<<40)),
					app("bvsle", bvLit(64, 0), c[1]), app("bvslt", c[1], bvLit(64, 1<<40)),
					implies(eq(c[0], bvLit(refBits, 0)), eq(c[2], bvLit(64, 0)))))
			}
		case *types.Pointer:
			vc.assume(and(app("bvsle", bvLit(64, 0), c[1]), app("bvslt", c[1], bvLit(64, 1<<40)),
				implies(eq(c[0], bvLit(refBits, 0)), eq(c[1], bvLit(64, 0)))))
		case *types.Map, *types.Chan:
			// maps and channels are whole objects (no interior references)
			vc.assume(eq(c[1], bvLit(64, 0)))
		case *types.Struct:
			off := 0
			for i := 0; i < u.NumFields(); i++ {
				n := size(u.Field(i).Type())
				walk(u.Field(i).Type(), c[off:off+n])
				off += n
			}
		case *types.Tuple:
			off := 0
			for i := 0; i < u.Len(); i++ {
				n := size(u.At(i).Type())
				walk(u.At(i).Type(), c[off:off+n])
				off += n
			}
		}
	}
	if v.T != nil {
		walk(v.T, v.C)
	}
}

func (vc *VC) freshState(hint string) *State {
	st := &State{H: map[string]string{}}
	for _, k := range stateKeys {
		st.H[k] = vc.fresh(stateSorts[k], hint+"_"+k)
	}
	return st
}

// mergeStates builds the ite-merge of the states carried by the edges.
func (vc *VC) mergeStates(edges []*Edge) *State {
	if len(edges) == 1 {
		return edges[0].St.clone()
	}
	st := &State{H: map[string]string{}}
	for _, k := range stateKeys {
		t := edges[len(edges)-1].St.H[k]
		for i := len(edges) - 2; i >= 0; i-- {
			t = ite(edges[i].Cond, edges[i].St.H[k], t)
		}
		st.H[k] = vc.def(stateSorts[k], t, k)
	}
	return st
}

func mergeSVs(vc *VC, conds []string, vals []*SV) *SV {
	if len(vals) == 1 {
		return vals[0]
	}
	out := &SV{T: vals[0].T, C: make([]string, len(vals[0].C)), Sort: vals[0].Sort, Signed: vals[0].Signed}
	l := []Sort(nil)
	if out.T != nil {
		l = layout(out.T)
	}
	for j := range out.C {
		t := vals[len(vals)-1].C[j]
		for i := len(vals) - 2; i >= 0; i-- {
			t = ite(conds[i], vals[i].C[j], t)
		}
		if l != nil {
			out.C[j] = vc.defS(l[j], t, "m")
		} else {
			out.C[j] = t
		}
	}
	out.Exact, out.NonNil = true, true
	for _, v := range vals {
		out.Exact = out.Exact && v.Exact
		out.NonNil = out.NonNil && v.NonNil
		out.File = out.File || v.File
	}
	seen := map[string]bool{}
	for _, v := range vals {
		for _, c := range v.Cands {
			if !seen[c.String()] {
				seen[c.String()] = true
				out.Cands = append(out.Cands, c)
			}
		}
	}
	return out
}

// saneStream adds (once per stream term) the standing facts about the entry
// position of stream s: 0 <= Spos <= Send < 2^40.
func (vc *VC) saneStream(s string) {
	if vc.entry == nil || vc.eng.declared(vc, "sane:"+s) {
		return
	}
	p := sel(vc.entry.H["Spos"], s)
	vc.assume(not(sel(vc.entry.H["Sfail"], s)))
	vc.assume(and(app("bvsle", bvLit(64, 0), p), app("bvsle", p, sel("Send", s)), app("bvslt", sel("Send", s), bvLit(64, 1<<40))))
}

func (vc *VC) saneSink(w string) {
	if vc.entry == nil || vc.eng.declared(vc, "sanew:"+w) {
		return
	}
	l := sel(vc.entry.H["Wlen"], w)
	vc.assume(not(sel(vc.entry.H["Wfail"], w)))
	vc.assume(and(app("bvsle", bvLit(64, 0), l), app("bvslt", l, bvLit(64, 1<<40))))
}

func (vc *VC) setSort(n, sort string) {
	if vc.sortOf == nil {
		vc.sortOf = map[string]string{
			"Sin":  "(Array (_ BitVec 32) (Array (_ BitVec 64) (_ BitVec 8)))",
			"Send": "(Array (_ BitVec 32) (_ BitVec 64))",
		}
	}
	vc.sortOf[n] = sort
}

// arraySort returns the sort of an array-valued term ("" if unknown).
func (vc *VC) arraySort(x *sexp) string {
	if x.list == nil {
		return vc.sortOf[x.atom]
	}
	if len(x.list) == 0 || x.list[0].list != nil {
		return ""
	}
	switch x.list[0].atom {
	case "select":
		if len(x.list) != 3 {
			return ""
		}
		a := vc.arraySort(x.list[1])
		if !strings.HasPrefix(a, "(Array ") {
			return ""
		}
		sx := parseSexp(a)
		if len(sx.list) != 3 {
			return ""
		}
		return sx.list[2].String()
	case "store":
		if len(x.list) == 4 {
			return vc.arraySort(x.list[1])
		}
	case "ite":
		if len(x.list) == 4 {
			return vc.arraySort(x.list[2])
		}
	}
	return ""
}

// infeasible asks the solver (at VC-generation time) whether a branch
// condition is unsatisfiable in the current context; dead dispatch
// alternatives are then not executed at all. The query is recorded as a
// discharged obligation of kind "dead-branch" so that it is visible in the
// evidence like every other solver-backed step.
func (vc *VC) infeasible(cond, note string) bool { return vc.infeasibleT(cond, note, 3) }

// infeasibleT asks the solvers (z3-new alone for short budgets, all three otherwise) whether cond is
// unsatisfiable in the current context; if so the fact is recorded as a discharged obligation and assumed.
func (vc *VC) infeasibleT(cond, note string, timeoutS int) bool {
	if cond == "false" {
		return true
	}
	if cond == "true" {
		return false
	}
	idx := vc.counts["dead-branch"]
	o := &Obligation{Name: fmt.Sprintf("%s::dead-branch[%d]", vc.Name, idx), Kind: "dead-branch", Goal: not(cond), Prefix: len(vc.lines), VC: vc, Note: note, Tags: []string{"@dispatch"}}
	f, err := os.CreateTemp("/var/tmp", "govc-feas-*.smt2")
	if err != nil {
		return false
	}
	defer os.Remove(f.Name())
	f.WriteString(o.script(nil))
	f.Close()
	which := solvers[:1]
	if timeoutS > 5 {
		which = solvers
	}
	r := race(f.Name(), timeoutS, 0, which)
	if r.status != "unsat" {
		return false
	}
	vc.counts["dead-branch"]++
	o.Status, o.Solver, o.Ms = "discharged", r.solver, r.ms
	o.Pre = true
	vc.obls = append(vc.obls, o)
	vc.assume(not(cond))
	return true
}

type rsaCall struct {
	ok       string
	key, sig *SV
}

package main

import (
	"bytes"
	"context"
	"fmt"
	"os"
	"os/exec"
	"path/filepath"
	"regexp"
	"strconv"
	"strings"
	"sync"
	"time"
)

type solverSpec struct {
	name string
	args func(file string, timeoutS int, seed int) []string
}

var solvers = []solverSpec{
	{"z3-new", func(f string, t, seed int) []string {
		return []string{"z3-new", fmt.Sprintf("-T:%d", t), fmt.Sprintf("smt.random_seed=%d", seed), fmt.Sprintf("sat.random_seed=%d", seed), f}
	}},
	{"z3", func(f string, t, seed int) []string {
		return []string{"z3", fmt.Sprintf("-T:%d", t), fmt.Sprintf("smt.random_seed=%d", seed), f}
	}},
	{"cvc5", func(f string, t, seed int) []string {
		return []string{"cvc5", fmt.Sprintf("--tlimit=%d", t*1000), fmt.Sprintf("--seed=%d", seed), "--produce-models", f}
	}},
}

type solveResult struct {
	file   string
	status string // unsat, sat, unknown
	solver string
	ms     int64
	out    string
}

func (o *Obligation) script(getValues []string) string {
	var body strings.Builder
	for _, l := range o.VC.eng.header(o.VC, o.Cover) {
		body.WriteString(l)
		body.WriteByte('\n')
	}
	for _, l := range o.VC.lines[:o.Prefix] {
		body.WriteString(l)
		body.WriteByte('\n')
	}
	for _, l := range o.Extra {
		body.WriteString(l)
		body.WriteByte('\n')
	}
	var sb strings.Builder
	logic := "QF_AUFBV"
	if os.Getenv("GOVC_LOGIC") != "" {
		logic = os.Getenv("GOVC_LOGIC")
	}
	if strings.Contains(body.String(), "(forall ") || strings.Contains(body.String(), "(exists ") || strings.Contains(o.Goal, "(forall ") || strings.Contains(o.Goal, "(exists ") || strings.Contains(body.String(), "define-fun-rec") || strings.Contains(body.String(), "define-funs-rec") {
		logic = "ALL"
	}
	sb.WriteString("(set-option :produce-models true)\n(set-logic " + logic + ")\n")
	sb.WriteString(body.String())
	if o.Cover {
		sb.WriteString("(assert " + o.Goal + ")\n")
	} else {
		sb.WriteString("(assert (not " + o.Goal + "))\n")
	}
	sb.WriteString("(check-sat)\n")
	if len(getValues) > 0 {
		sb.WriteString("(get-value (" + strings.Join(getValues, " ") + "))\n")
	}
	return sb.String()
}

func runSolver(ctx context.Context, sp solverSpec, file string, timeoutS, seed int) solveResult {
	args := sp.args(file, timeoutS, seed)
	start := time.Now()
	cctx, cancel := context.WithTimeout(ctx, time.Duration(timeoutS+2)*time.Second)
	defer cancel()
	cmd := exec.CommandContext(cctx, args[0], args[1:]...)
	var out bytes.Buffer
	cmd.Stdout = &out
	cmd.Stderr = &out
	cmd.Run()
	ms := time.Since(start).Milliseconds()
	text := out.String()
	first := strings.TrimSpace(strings.SplitN(text, "\n", 2)[0])
	st := "unknown"
	switch first {
	case "unsat":
		st = "unsat"
	case "sat":
		st = "sat"
	}
	return solveResult{file, st, sp.name, ms, text}
}

// race runs the solvers concurrently on the query and returns the first
// definitive answer.
func race(file string, timeoutS, seed int, which []solverSpec) solveResult {
	ctx, cancel := context.WithCancel(context.Background())
	defer cancel()
	ch := make(chan solveResult, len(which))
	for _, sp := range which {
		go func(sp solverSpec) { ch <- runSolver(ctx, sp, file, timeoutS, seed) }(sp)
	}
	var last solveResult
	var outs []string
	for range which {
		r := <-ch
		if r.status != "unknown" {
			return r
		}
		outs = append(outs, r.solver+": "+strings.TrimSpace(firstLines(r.out, 3)))
		last = r
	}
	last.out = strings.Join(outs, "\n")
	last.solver = "all"
	return last
}

var sclDecl = regexp.MustCompile(`\(declare-fun scl(\d+) \(\(_ BitVec 64\)\) \(_ BitVec 64\)\)`)

// variants of a query that uses the scaling abstraction (see scaleReg): [abstract + facts, exact].
// Without the abstraction there is one variant.
func queryVariants(sc string) []string {
	hasDiv := strings.Contains(sc, "\n;DIVF ")
	withDiv := strings.ReplaceAll(sc, "\n;DIVF ", "\n")
	if !sclDecl.MatchString(sc) {
		if hasDiv {
			// [without the division facts, with them]; a model is believed only of the second
			return []string{sc, withDiv}
		}
		return []string{sc}
	}
	if hasDiv {
		vs := queryVariants(withDiv) // [abstract scaling + facts, exact scaling], both with division facts
		return append([]string{strings.ReplaceAll(sc, "\n;ARITH ", "\n")}, vs...)
	}
	abs := strings.ReplaceAll(sc, "\n;ARITH ", "\n")
	exact := sclDecl.ReplaceAllStringFunc(sc, func(m string) string {
		k := sclDecl.FindStringSubmatch(m)[1]
		n, _ := strconv.Atoi(k)
		return fmt.Sprintf("(define-fun scl%s ((x!q (_ BitVec 64))) (_ BitVec 64) (bvmul x!q #x%016x))", k, n)
	})
	return []string{abs, exact}
}

// raceFiles races the solvers on several variants of one query (the same obligation with and
// without the optional arithmetic facts); any definitive answer to any variant decides it.
func raceFiles(files []string, timeoutS, seed int, which []solverSpec) solveResult {
	if len(files) == 1 {
		return race(files[0], timeoutS, seed, which)
	}
	ctx, cancel := context.WithCancel(context.Background())
	defer cancel()
	ch := make(chan solveResult, len(which)*len(files))
	for _, f := range files {
		for _, sp := range which {
			go func(f string, sp solverSpec) { ch <- runSolver(ctx, sp, f, timeoutS, seed) }(f, sp)
		}
	}
	var last solveResult
	var outs []string
	for i := 0; i < len(which)*len(files); i++ {
		r := <-ch
		if r.status == "sat" && r.file != files[len(files)-1] {
			r.status = "unknown" // a model of the abstracted variant may be spurious; the exact variant decides
		}
		if r.status != "unknown" {
			return r
		}
		outs = append(outs, r.solver+": "+strings.TrimSpace(firstLines(r.out, 3)))
		last = r
	}
	last.out = strings.Join(outs, "\n")
	last.solver = "all"
	return last
}

func firstLines(s string, n int) string {
	ls := strings.Split(s, "\n")
	if len(ls) > n {
		ls = ls[:n]
	}
	return strings.Join(ls, "\n")
}

type Discharger struct {
	mu       sync.Mutex
	cache    map[string]*Obligation // identical queries (same text) are decided once
	dir      string
	timeoutS int
	seed     int
	par      int
	agree    bool // thorough: require two solvers to agree on quantified obligations
}

func (d *Discharger) run(obls []*Obligation) {
	sem := make(chan struct{}, d.par)
	var wg sync.WaitGroup
	for i, o := range obls {
		wg.Add(1)
		sem <- struct{}{}
		go func(i int, o *Obligation) {
			defer wg.Done()
			defer func() { <-sem }()
			d.discharge(i, o)
		}(i, o)
	}
	wg.Wait()
}

func (d *Discharger) discharge(i int, o *Obligation) {
	if o.Pre {
		return
	}
	// identical query text (e.g. the part of a function before a loop-level case split):
	// decide once, copy the verdict
	key := o.script(nil)
	d.mu.Lock()
	if d.cache == nil {
		d.cache = map[string]*Obligation{}
	}
	prev := d.cache[key]
	if prev == nil {
		d.cache[key] = o
	}
	d.mu.Unlock()
	if prev != nil {
		for k := 0; k < 4000 && prev.Status == ""; k++ {
			time.Sleep(50 * time.Millisecond)
		}
		if prev.Status != "" {
			o.Status, o.Solver, o.Ms, o.Output, o.Model = prev.Status, prev.Solver+"(same query)", 0, prev.Output, prev.Model
			return
		}
	}
	var gv []string
	if !o.Cover && o.Replay != nil {
		gv = o.Replay.getValuesAt(o.Prefix)
	}
	file := filepath.Join(d.dir, fmt.Sprintf("q%05d.smt2", i))
	os.WriteFile(file, []byte(o.script(gv)), 0o644)
	files := []string{file}
	if vs := queryVariants(o.script(gv)); len(vs) >= 2 && !o.Cover {
		// the last variant is the most exact one: it is the file kept for inspection and the only one
		// whose models are believed
		files = nil
		for k, v := range vs[:len(vs)-1] {
			fa := filepath.Join(d.dir, fmt.Sprintf("q%05d.%c.smt2", i, 'a'+k))
			os.WriteFile(fa, []byte(v), 0o644)
			files = append(files, fa)
			defer os.Remove(fa)
		}
		os.WriteFile(file, []byte(vs[len(vs)-1]), 0o644)
		files = append(files, file)
	} else if o.Cover {
		// covers: division facts on (they are theorems; without them the quotient is unconstrained)
		os.WriteFile(file, []byte(strings.ReplaceAll(o.script(gv), "\n;DIVF ", "\n")), 0o644)
	}
	// quantifier-free first: the hypotheses that are quantified are dropped (their relevant
	// instances were added explicitly, see instantiateFor); proving the goal from fewer
	// hypotheses is sound, and the ground query is decided by bit-blasting
	if !o.Cover {
		sc := o.script(gv)
		if strings.Contains(sc, "(forall ") || strings.Contains(sc, "(exists ") {
			var sb strings.Builder
			for _, ln := range strings.Split(sc, "\n") {
				if strings.HasPrefix(ln, "(assert") && !strings.HasPrefix(ln, "(assert (not ") && (strings.Contains(ln, "(forall ") || strings.Contains(ln, "(exists ")) {
					continue
				}
				if strings.HasPrefix(ln, "(get-value") {
					continue
				}
				sb.WriteString(ln)
				sb.WriteByte('\n')
			}
			q := sb.String()
			if !strings.Contains(q, "(forall ") && !strings.Contains(q, "(exists ") {
				f2 := file + ".qf.smt2"
				q = strings.Replace(q, "(set-logic ALL)", "(set-logic QF_AUFBV)", 1)
				os.WriteFile(f2, []byte(q), 0o644)
				qfs := []string{f2}
				if vs := queryVariants(q); len(vs) >= 2 {
					qfs = nil
					for k, v := range vs[:len(vs)-1] {
						f3 := fmt.Sprintf("%s.qf%c.smt2", file, 'a'+k)
						os.WriteFile(f3, []byte(v), 0o644)
						qfs = append(qfs, f3)
						defer os.Remove(f3)
					}
					os.WriteFile(f2, []byte(vs[len(vs)-1]), 0o644)
					qfs = append(qfs, f2)
				}
				r0 := raceFiles(qfs, 35, d.seed, solvers[:1])
				if r0.status == "sat" {
					r0.status = "unknown" // the ground part alone is weaker: a model of it refutes nothing
				}
				os.Remove(f2)
				if r0.status == "unsat" {
					o.Solver, o.Ms, o.Output, o.Status = r0.solver+"(ground)", r0.ms, r0.out, "discharged"
					if os.Getenv("GOVC_KEEPALL") == "" {
						os.Remove(file)
					}
					return
				}
			}
		}
	}
	// fast path: the newest z3 alone with a short budget
	r := raceFiles(files, 3, d.seed, solvers[:1])
	if r.status == "unknown" {
		t := d.timeoutS
		if o.Cover && t > 6 {
			t = 6 // covers are vacuity guards: an undecided cover is reported, not waited for
		}
		r = raceFiles(files, t, d.seed, solvers)
	}
	if o.Cover && r.status == "unknown" {
		// undecided with quantified hypotheses: decide the ground part alone. If even that is
		// unsatisfiable the assumptions are contradictory (vacuity); if it is satisfiable the
		// cover passes in the weaker sense "no contradiction among the quantifier-free facts".
		var sb strings.Builder
		for _, ln := range strings.Split(o.script(nil), "\n") {
			if strings.HasPrefix(ln, "(assert") && (strings.Contains(ln, "(forall ") || strings.Contains(ln, "(exists ")) {
				continue
			}
			sb.WriteString(ln)
			sb.WriteByte('\n')
		}
		f2 := file + ".qf.smt2"
		os.WriteFile(f2, []byte(strings.Replace(sb.String(), "(set-logic ALL)", "(set-logic QF_AUFBV)", 1)), 0o644)
		r2 := race(f2, 10, d.seed, solvers[:1])
		os.Remove(f2)
		if r2.status == "unsat" {
			r = r2
		} else if r2.status == "sat" {
			r2.solver += "(ground part)"
			r = r2
		}
	}
	o.Solver, o.Ms, o.Output = r.solver, r.ms, r.out
	switch {
	case o.Cover && r.status == "sat":
		o.Status = "cover-ok"
	case o.Cover && r.status == "unsat":
		o.Status = "cover-failed"
	case o.Cover:
		o.Status = "cover-unknown"
	case r.status == "unsat":
		o.Status = "discharged"
	case r.status == "sat":
		o.Status = "refuted"
		o.Model = r.out
		// try for a model that is easier to replay (short slices and streams)
		if hints := o.Replay.smallModelHints(); len(hints) > 0 {
			sc := o.script(gv)
			k := strings.LastIndex(sc, "(check-sat)")
			var sb strings.Builder
			sb.WriteString(sc[:k])
			for _, h := range hints {
				sb.WriteString("(assert " + h + ")\n")
			}
			sb.WriteString(sc[k:])
			f2 := file + ".small.smt2"
			os.WriteFile(f2, []byte(sb.String()), 0o644)
			if r2 := race(f2, 5, d.seed, solvers[:2]); r2.status == "sat" {
				o.Output, o.Model = r2.out, r2.out
			}
			os.Remove(f2)
		}
	default:
		o.Status = "undischarged"
	}
	if (o.Status == "discharged" || o.Status == "cover-ok") && os.Getenv("GOVC_KEEPALL") == "" {
		os.Remove(file)
	}
}

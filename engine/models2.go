package main

import (
	"fmt"
	"go/types"
	"strings"
)

// Models of bytes.Buffer, encoding/binary Read/Write and helpers to resolve
// the stream / sink behind a reader or writer value of a known wrapper type.

const (
	aBuffer  = "bytes.Buffer (assumed, library docs): an in-memory sink that never fails; Bytes() returns the unread content; Len() its length; Reset() empties it"
	aBinRW   = "encoding/binary.Read/Write of fixed-size values and byte slices (assumed, library docs): Read is io.ReadFull of the encoded size then decoding in the given byte order, data untouched on error; Write encodes and issues one Write"
	aEmbedRW = "a struct that embeds an io.Reader/io.Writer forwards Read/Write to the embedded value (promoted methods)"
)

// resolveRW follows promoted Read/Write methods of known wrapper types down
// to the opaque reader/writer and returns its identity (stream / sink ref).
func (c *callCtx) resolveRW(v *SV, method string, depth int) (ref string, isBuffer bool, ok bool) {
	vc, st := c.vc, c.n.St
	if depth > 4 {
		return "", false, false
	}
	if !isInterface(v.T) {
		// concrete pointer
		if p, isPtr := v.T.Underlying().(*types.Pointer); isPtr {
			if p.Elem().String() == "bytes.Buffer" {
				return v.C[0], true, true
			}
			if p.Elem().String() == "bytes.Reader" {
				return v.C[0], false, true
			}
			if stt, isStruct := p.Elem().Underlying().(*types.Struct); isStruct {
				off := 0
				for i := 0; i < stt.NumFields(); i++ {
					f := stt.Field(i)
					if f.Embedded() && hasMethod(f.Type(), method) {
						vc.note(aEmbedRW)
						fv := vc.load(st, &SV{T: types.NewPointer(f.Type()), C: []string{v.C[0], cellIdx(v.C[1], off)}}, f.Type(), "emb")
						return c.resolveRW(fv, method, depth+1)
					}
					off += size(f.Type())
				}
			}
		}
		return "", false, false
	}
	if !v.Exact {
		// an interface value read from memory / passed in: treated as a reader or
		// writer of a type outside the repository (standing assumption)
		vc.assume(implies(c.n.Reach, or(eq(v.C[0], bvLit(tidBits, 0)), app("bvuge", v.C[0], bvLit(tidBits, 0x8000)))))
		vc.note("standing: reader/writer values stored in objects are of types outside the repository (they obey the io contracts)")
		return v.C[1], false, true
	}
	if v.Exact && len(v.Cands) == 1 {
		inner := vc.unbox(st, v, v.Cands[0])
		return c.resolveRW(inner, method, depth+1)
	}
	return "", false, false
}

func hasMethod(t types.Type, name string) bool {
	ms := types.NewMethodSet(t)
	for i := 0; i < ms.Len(); i++ {
		if ms.At(i).Obj().Name() == name {
			return true
		}
	}
	if _, ok := t.Underlying().(*types.Pointer); !ok {
		ms = types.NewMethodSet(types.NewPointer(t))
		for i := 0; i < ms.Len(); i++ {
			if ms.At(i).Obj().Name() == name {
				return true
			}
		}
	}
	return false
}

// writeTo appends cnt bytes of src (a byte slice value) to the writer w and
// returns the error value.
func (c *callCtx) writeTo(w *SV, src *SV, maxN int) *SV {
	vc, st := c.vc, c.n.St
	ref, isBuf, ok := c.resolveRW(w, "Write", 0)
	if !ok {
		vc.note("write to a writer whose identity cannot be resolved: havoc")
		vc.havocAll(st, "write")
		return vc.freshError(st, "werr")
	}
	if isBuf {
		vc.note(aBuffer)
		c.sinkWrite(ref, src, src.C[2], maxN)
		return nilError()
	}
	if w.File {
		nn := vc.freshS(SBV64, "nwritten")
		err := vc.freshError(st, "werr")
		vc.assume(implies(c.n.Reach, and(app("bvsle", bvLit(64, 0), nn), app("bvsle", nn, src.C[2]), implies(app("bvslt", nn, src.C[2]), isErr(err)))))
		vc.saneFile(ref)
		pos := vc.defS(SBV64, sel(st.H["Fpos"], ref), "fpos")
		c.fileWrite(ref, pos, src, nn, maxN, true)
		return err
	}
	vc.note(aWriter)
	nn := vc.freshS(SBV64, "nwritten")
	err := vc.freshError(st, "werr")
	vc.assume(implies(c.n.Reach, and(app("bvsle", bvLit(64, 0), nn), app("bvsle", nn, src.C[2]), implies(app("bvslt", nn, src.C[2]), isErr(err)))))
	c.sinkWrite(ref, src, nn, maxN)
	st.H["Wfail"] = vc.def(stateSorts["Wfail"], sto(st.H["Wfail"], ref, or(sel(st.H["Wfail"], ref), isErr(err))), "Wfail")
	return err
}

// readFullFrom reads exactly len(dst) bytes from reader r into dst (io.ReadFull semantics).
func (c *callCtx) readFullFrom(r *SV, dst *SV) (n string, err *SV) {
	vc, st := c.vc, c.n.St
	src, ok := c.source(r, 0)
	if !ok {
		vc.note("read from a reader whose identity cannot be resolved: havoc")
		vc.havocAll(st, "read")
		return vc.freshS(SBV64, "n"), vc.freshError(st, "rerr")
	}
	return c.readFull(src, dst)
}

func isLittle(order *SV) (little, known bool) {
	if len(order.Cands) == 1 {
		s := order.Cands[0].String()
		return strings.Contains(s, "littleEndian"), true
	}
	return false, false
}

func byteSliceType() types.Type { return types.NewSlice(types.Typ[types.Uint8]) }

// tempBytes allocates a fresh byte object holding the encoding of a scalar.
func (c *callCtx) tempBytes(val string, bits int, little bool) *SV {
	vc, st := c.vc, c.n.St
	ref := vc.alloc(st, types.NewArray(types.Typ[types.Uint8], int64(bits/8)), "enc")
	row := sel(st.H["H8"], ref)
	w := bits / 8
	for k := 0; k < w; k++ {
		hi := bits - 1 - 8*k
		if little {
			hi = 8*k + 7
		}
		b := val
		if bits > 8 {
			b = fmt.Sprintf("((_ extract %d %d) %s)", hi, hi-7, val)
		}
		row = sto(row, bvLit(64, int64(k)), b)
	}
	st.H["H8"] = vc.def(heapSort(SBV8), sto(st.H["H8"], ref, row), "H8")
	return &SV{T: byteSliceType(), C: []string{ref, bvLit(64, 0), bvLit(64, int64(w)), bvLit(64, int64(w))}, NonNil: true}
}

func init() {
	models["(*bytes.Buffer).Write"] = func(c *callCtx) *SV {
		c.vc.note(aBuffer)
		b, p := c.args[0], c.args[1]
		c.sinkWrite(b.C[0], p, p.C[2], constLen(p.C[2]))
		return tupleSV(c.fn.Signature.Results(), &SV{T: intType, C: []string{p.C[2]}}, nilError())
	}
	models["(*bytes.Buffer).WriteByte"] = func(c *callCtx) *SV {
		c.vc.note(aBuffer)
		tmp := c.tempBytes(c.args[1].C[0], 8, false)
		c.sinkWrite(c.args[0].C[0], tmp, bvLit(64, 1), 1)
		return nilError()
	}
	models["(*bytes.Buffer).Len"] = func(c *callCtx) *SV {
		vc, st := c.vc, c.n.St
		vc.note(aBuffer)
		b := c.args[0].C[0]
		return &SV{T: intType, C: []string{vc.defS(SBV64, app("bvsub", sel(st.H["Wlen"], b), sel(st.H["Gh"], b)), "blen")}}
	}
	models["(*bytes.Buffer).Reset"] = func(c *callCtx) *SV {
		vc, st := c.vc, c.n.St
		vc.note(aBuffer)
		b := c.args[0].C[0]
		st.H["Wlen"] = vc.def(stateSorts["Wlen"], sto(st.H["Wlen"], b, bvLit(64, 0)), "Wlen")
		st.H["Gh"] = vc.def(stateSorts["Gh"], sto(st.H["Gh"], b, bvLit(64, 0)), "Gh")
		return nil
	}
	models["(*bytes.Buffer).Next"] = func(c *callCtx) *SV {
		vc, st := c.vc, c.n.St
		vc.note(aBuffer + "; Next(n) advances the read position by min(n, Len()) (the returned slice is not modelled)")
		b := c.args[0].C[0]
		n := c.args[1].C[0]
		rd := sel(st.H["Gh"], b)
		avail := vc.defS(SBV64, app("bvsub", sel(st.H["Wlen"], b), rd), "avail")
		step := vc.defS(SBV64, ite(app("bvsgt", n, avail), avail, n), "step")
		st.H["Gh"] = vc.def(stateSorts["Gh"], sto(st.H["Gh"], b, app("bvadd", rd, step)), "Gh")
		return vc.freshSV(byteSliceType(), "next", st)
	}
	models["(*bytes.Buffer).Bytes"] = func(c *callCtx) *SV {
		vc, st := c.vc, c.n.St
		if vc.Contract != nil && vc.Contract.AliasBytes {
			// aliasing model: the buffer's content lives in the sink row; while a slice obtained from
			// Bytes is around, the byte heap row of the buffer object mirrors it. Writes through the
			// slice (which go to the heap row) are taken over at the next buffer operation.
			vc.note(aBuffer + "; Bytes() aliases the content (valid until the next write to the buffer, as documented)")
			b := c.args[0].C[0]
			st.H["H8"] = vc.def(heapSort(SBV8), sto(st.H["H8"], b, sel(st.H["Wout"], b)), "H8")
			st.H["#exposed:"+b] = "1" // path-sensitive: lives in the state
			rd := sel(st.H["Gh"], b)
			ln := vc.defS(SBV64, app("bvsub", sel(st.H["Wlen"], b), rd), "blen")
			return &SV{T: byteSliceType(), C: []string{b, vc.defS(SBV64, rd, "boff"), ln, ln}, NonNil: true}
		}
		vc.note(aBuffer + "; the returned slice is modelled as a copy of the content")
		b := c.args[0].C[0]
		rd := sel(st.H["Gh"], b)
		ln := vc.defS(SBV64, app("bvsub", sel(st.H["Wlen"], b), rd), "blen")
		ref := vc.allocRaw(st, "bytes")
		zero := fmt.Sprintf("((as const %s) #x00)", rowSort(SBV8))
		row := vc.copyCells(SBV8, zero, bvLit(64, 0), sel(st.H["Wout"], b), rd, ln, -1)
		st.H["H8"] = vc.def(heapSort(SBV8), sto(st.H["H8"], ref, row), "H8")
		return &SV{T: byteSliceType(), C: []string{ref, bvLit(64, 0), ln, ln}, NonNil: true}
	}

	models["encoding/binary.Write"] = func(c *callCtx) *SV {
		vc, st := c.vc, c.n.St
		vc.note(aBinRW)
		w, order, data := c.args[0], c.args[1], c.args[2]
		little, known := isLittle(order)
		if !known {
			vc.note("binary.Write with an unknown byte order: havoc")
			vc.havocAll(st, "binwrite")
			return vc.freshError(st, "bwerr")
		}
		// dispatch on the dynamic type of data
		type alt struct {
			cond string
			st   *State
			err  *SV
		}
		var alts []alt
		pre := st
		var known2 []string
		for _, ct := range data.Cands {
			cnd := eq(data.C[0], vc.eng.typeID(ct))
			var src *SV
			c.n.St = pre.clone()
			switch u := ct.Underlying().(type) {
			case *types.Basic:
				if u.Info()&(types.IsInteger|types.IsBoolean) == 0 || u.Kind() == types.Int || u.Kind() == types.Uint || u.Kind() == types.Uintptr {
					continue
				}
				val := vc.unbox(c.n.St, data, ct)
				if isBool(ct) {
					src = c.tempBytes(bool2bv(val.C[0], 8), 8, little)
				} else {
					src = c.tempBytes(val.C[0], basicBits(u), little)
				}
			case *types.Slice:
				if !isByteSlice(ct) {
					continue
				}
				src = vc.unbox(c.n.St, data, ct)
			default:
				continue
			}
			known2 = append(known2, cnd)
			err := c.writeTo(w, src, constLen(src.C[2]))
			alts = append(alts, alt{cnd, c.n.St, err})
		}
		// anything else: arbitrary effect (unless the solver shows it cannot happen)
		if oc := and(c.n.Reach, not(or(known2...))); len(known2) == 0 || !vc.infeasible(oc, "binary.Write data of an unsupported dynamic type"+c.where()) {
			c.n.St = pre.clone()
			vc.havocAll(c.n.St, "binwrite")
			alts = append(alts, alt{not(or(known2...)), c.n.St, vc.freshError(c.n.St, "bwerr")})
		}
		if len(alts) == 1 {
			c.n.St = alts[0].st
			return alts[0].err
		}
		var edges []*Edge
		var conds []string
		var errs []*SV
		for _, a := range alts {
			edges = append(edges, &Edge{Cond: a.cond, St: a.st})
			conds = append(conds, a.cond)
			errs = append(errs, a.err)
		}
		c.n.St = vc.mergeStates(edges)
		return mergeSVs(vc, conds, errs)
	}

	models["encoding/binary.Read"] = func(c *callCtx) *SV {
		vc, st := c.vc, c.n.St
		vc.note(aBinRW)
		r, order, data := c.args[0], c.args[1], c.args[2]
		little, known := isLittle(order)
		if !known || !data.Exact || len(data.Cands) != 1 {
			vc.note("binary.Read with an unknown byte order or data type: havoc")
			vc.havocAll(st, "binread")
			return vc.freshError(st, "brerr")
		}
		pt, ok := data.Cands[0].Underlying().(*types.Pointer)
		if !ok {
			vc.havocAll(st, "binread")
			return vc.freshError(st, "brerr")
		}
		ptr := vc.unbox(st, data, data.Cands[0])
		switch u := pt.Elem().Underlying().(type) {
		case *types.Basic:
			if u.Info()&types.IsInteger == 0 || u.Kind() == types.Int || u.Kind() == types.Uint {
				break
			}
			bits := basicBits(u)
			tmp := c.tempBytes(bvLit(bits, 0), bits, little)
			_, err := c.readFullFrom(r, tmp)
			st = c.n.St
			row := sel(st.H["H8"], tmp.C[0])
			var parts []string
			for k := 0; k < bits/8; k++ {
				parts = append(parts, sel(row, bvLit(64, int64(k))))
			}
			if little {
				for i, j := 0, len(parts)-1; i < j; i, j = i+1, j-1 {
					parts[i], parts[j] = parts[j], parts[i]
				}
			}
			val := parts[0]
			if len(parts) > 1 {
				val = app("concat", parts...)
			}
			s := bvSort(bits)
			h := s.heap()
			oldv := sel2(st.H[h], ptr.C[0], ptr.C[1])
			st.H[h] = vc.def(heapSort(s), sto2(st.H[h], ptr.C[0], ptr.C[1], ite(isErr(err), oldv, val)), h)
			return err
		case *types.Slice:
			if isByteSlice(pt.Elem()) {
				sl := vc.load(st, ptr, pt.Elem(), "rdslice")
				_, err := c.readFullFrom(r, sl)
				return err
			}
		}
		vc.note("binary.Read into " + pt.Elem().String() + ": havoc")
		vc.havocAll(st, "binread")
		return vc.freshError(st, "brerr")
	}
	modelEffects["encoding/binary.Read"] = []string{"H8", "H16", "H32", "H64", "Spos", "Sfail", "next"}
	modelEffects["encoding/binary.Write"] = []string{"H8", "Wout", "Wlen", "Wfail", "next"}
	modelEffects["(*bytes.Buffer).Write"] = []string{"Wout", "Wlen"}
	modelEffects["(*bytes.Buffer).WriteByte"] = []string{"Wout", "Wlen", "H8", "next"}
	modelEffects["(*bytes.Buffer).Len"] = []string{}
	modelEffects["(*bytes.Buffer).Reset"] = []string{"Wlen", "Gh"}
	modelEffects["(*bytes.Buffer).Bytes"] = []string{"H8", "next"}
	models["crypto/rsa.VerifyPKCS1v15"] = func(c *callCtx) *SV {
		vc := c.vc
		vc.note("crypto/rsa.VerifyPKCS1v15 (assumed, library docs): returns nil exactly when the signature is valid for the key and digest; its verdict is captured as ghost rsa_ok()")
		ok := vc.freshS(SBool, "rsa_ok")
		err := vc.freshError(c.n.St, "rsaerr")
		vc.assume(eq(ok, not(isErr(err))))
		vc.lastRSA = &rsaCall{ok: ok, key: c.args[0], sig: c.args[3]}
		return err
	}
	modelEffects["crypto/rsa.VerifyPKCS1v15"] = []string{"next"}
	models["math/rand.Int31"] = func(c *callCtx) *SV {
		c.vc.note("math/rand.Int31 returns an arbitrary non-negative int32 (library docs)")
		v := c.vc.freshSV(types.Typ[types.Int32], "rand", c.n.St)
		c.vc.assume(app("bvsge", v.C[0], bvLit(32, 0)))
		return v
	}
	modelEffects["math/rand.Int31"] = []string{}
}

// bufSyncOut: ref is (possibly) a bytes.Buffer whose content was handed out by Bytes() on this path:
// what was just written to its byte heap row - through the aliasing slice - becomes the buffer's content.
func (vc *VC) bufSyncOut(st *State, ref string) {
	if st.H["#exposed:"+ref] != "" {
		st.H["Wout"] = vc.def(stateSorts["Wout"], sto(st.H["Wout"], ref, sel(st.H["H8"], ref)), "Wout")
	}
}

package main

import (
	"fmt"
	"go/types"
	"math"

	"golang.org/x/tools/go/ssa"
)

// This file holds the ASSUMED contracts of library functions and of the
// methods of interfaces whose dynamic type is unknown (io.Reader, io.Writer,
// io.ByteReader, error ...). Every model that is used is recorded in the
// evidence under "assumptions" with the text given to vc.note.

type callCtx struct {
	vc     *VC
	f      *Frame
	n      *Node
	in     ssa.Instruction
	fn     *ssa.Function
	args   []*SV
	recv   *SV
	method *types.Func
}

func (c *callCtx) where() string { return c.f.wherei(c.in) }

type model func(c *callCtx) *SV
type ifaceModel func(c *callCtx) (*SV, bool)

var models = map[string]model{}
var ifaceModels = map[string]ifaceModel{}

func float32bits(f float32) uint32 { return math.Float32bits(f) }
func float64bits(f float64) uint64 { return math.Float64bits(f) }

var errorType = types.Universe.Lookup("error").Type()
var intType = types.Typ[types.Int]

// freshError makes an arbitrary error value (possibly nil).
func (vc *VC) freshError(st *State, hint string) *SV {
	return vc.freshSV(errorType, hint, st)
}

func (vc *VC) nonNilError(st *State, hint string) *SV {
	e := vc.freshSV(errorType, hint, st)
	vc.assume(not(eq(e.C[0], bvLit(tidBits, 0))))
	return e
}

func nilError() *SV {
	z := zeroSV(errorType)
	z.Exact = true
	return z
}

func isErr(e *SV) string { return not(eq(e.C[0], bvLit(tidBits, 0))) }

// readInto models reading between lo and hi bytes (count is returned) from
// stream s into the byte slice dst; the stream cursor advances by the count.
func (c *callCtx) streamRead(s string, dst *SV, cnt string, maxN int) {
	vc, st := c.vc, c.n.St
	vc.saneStream(s)
	p := vc.defS(SBV64, sel(st.H["Spos"], s), "spos")
	srcRow := sel("Sin", s)
	dstRow := sel(st.H["H8"], dst.C[0])
	row := vc.copyCells(SBV8, dstRow, dst.C[1], srcRow, p, cnt, maxN)
	st.H["H8"] = vc.def(heapSort(SBV8), sto(st.H["H8"], dst.C[0], row), "H8")
	np := vc.defS(SBV64, app("bvadd", p, cnt), "spos")
	vc.assume(implies(c.n.Reach, app("bvsle", np, sel("Send", s))))
	st.H["Spos"] = vc.def(stateSorts["Spos"], sto(st.H["Spos"], s, np), "Spos")
}

func (c *callCtx) setFail(s string, cond string) {
	vc, st := c.vc, c.n.St
	st.H["Sfail"] = vc.def(stateSorts["Sfail"], sto(st.H["Sfail"], s, or(sel(st.H["Sfail"], s), cond)), "Sfail")
}

func (c *callCtx) sinkWrite(w string, src *SV, cnt string, maxN int) {
	vc, st := c.vc, c.n.St
	vc.saneSink(w)
	l := vc.defS(SBV64, sel(st.H["Wlen"], w), "wlen")
	srcRow := sel(st.H["H8"], src.C[0])
	dstRow := sel(st.H["Wout"], w)
	row := vc.copyCells(SBV8, dstRow, l, srcRow, src.C[1], cnt, maxN)
	st.H["Wout"] = vc.def(stateSorts["Wout"], sto(st.H["Wout"], w, row), "Wout")
	st.H["Wlen"] = vc.def(stateSorts["Wlen"], sto(st.H["Wlen"], w, app("bvadd", l, cnt)), "Wlen")
}

const (
	aReader     = "io.Reader.Read (assumed, io docs): returns 0 <= n <= len(p) bytes taken in order from the stream, advances the stream by n, never passes the end; err == nil implies n >= 1 or len(p) == 0; a non-nil error marks the stream failed"
	aByteReader = "io.ByteReader.ReadByte (assumed, io docs): on success returns the next byte and advances by one; on error consumes nothing and marks the stream failed"
	aReadFull   = "io.ReadFull (assumed, io docs): err == nil iff n == len(buf); the n bytes read are the next n bytes of the stream; a non-nil error marks the stream failed"
	aWriter     = "io.Writer.Write (assumed, io docs): appends the first n bytes of p to the sink, 0 <= n <= len(p); n < len(p) implies a non-nil error; a non-nil error marks the sink failed"
	aBinary     = "encoding/binary byte-order accessors (assumed, library source): big/little-endian value of the first N bytes; panic when the slice is shorter than N"
	aErrorsNew  = "errors.New / fmt.Errorf return a non-nil error (assumed, library docs)"
	aFloatBits  = "math.Float32bits/Float64bits and inverses are the identity on the IEEE bit pattern (floats are carried as bit patterns)"
)

func init() {
	// ---- interface methods on values of unknown dynamic type
	ifaceModels["Read"] = func(c *callCtx) (*SV, bool) {
		if len(c.args) != 1 || !isByteSlice(c.args[0].T) {
			return nil, false
		}
		vc, st := c.vc, c.n.St
		vc.note(aReader)
		s := c.recv.C[1]
		p := c.args[0]
		nn := vc.freshS(SBV64, "nread")
		err := vc.freshError(st, "rerr")
		vc.assume(implies(c.n.Reach, and(app("bvsle", bvLit(64, 0), nn), app("bvsle", nn, p.C[2]),
			implies(not(isErr(err)), or(app("bvsge", nn, bvLit(64, 1)), eq(p.C[2], bvLit(64, 0)))))))
		vc.noteRead(c.n.Reach, nn)
		c.streamRead(s, p, nn, constLen(p.C[2]))
		c.setFail(s, isErr(err))
		return tupleSV(c.method.Type().(*types.Signature).Results(), &SV{T: intType, C: []string{nn}}, err), true
	}
	ifaceModels["ReadByte"] = func(c *callCtx) (*SV, bool) {
		if len(c.args) != 0 {
			return nil, false
		}
		vc, st := c.vc, c.n.St
		vc.note(aByteReader)
		s := c.recv.C[1]
		err := vc.freshError(st, "rberr")
		vc.saneStream(s)
		p := vc.defS(SBV64, sel(st.H["Spos"], s), "spos")
		ok := not(isErr(err))
		b := vc.defS(SBV8, ite(ok, sel2("Sin", s, p), vc.freshS(SBV8, "junk")), "rb")
		np := vc.defS(SBV64, ite(ok, app("bvadd", p, bvLit(64, 1)), p), "spos")
		vc.assume(implies(c.n.Reach, app("bvsle", np, sel("Send", s))))
		st.H["Spos"] = vc.def(stateSorts["Spos"], sto(st.H["Spos"], s, np), "Spos")
		c.setFail(s, isErr(err))
		return tupleSV(c.method.Type().(*types.Signature).Results(), &SV{T: types.Typ[types.Uint8], C: []string{b}}, err), true
	}
	ifaceModels["Write"] = func(c *callCtx) (*SV, bool) {
		if len(c.args) != 1 || !isByteSlice(c.args[0].T) {
			return nil, false
		}
		vc, st := c.vc, c.n.St
		vc.note(aWriter)
		w := c.recv.C[1]
		p := c.args[0]
		nn := vc.freshS(SBV64, "nwritten")
		err := vc.freshError(st, "werr")
		vc.assume(implies(c.n.Reach, and(app("bvsle", bvLit(64, 0), nn), app("bvsle", nn, p.C[2]),
			implies(app("bvslt", nn, p.C[2]), isErr(err)))))
		c.sinkWrite(w, p, nn, constLen(p.C[2], p.C[3]))
		st.H["Wfail"] = vc.def(stateSorts["Wfail"], sto(st.H["Wfail"], w, or(sel(st.H["Wfail"], w), isErr(err))), "Wfail")
		return tupleSV(c.method.Type().(*types.Signature).Results(), &SV{T: intType, C: []string{nn}}, err), true
	}
	ifaceModels["Error"] = func(c *callCtx) (*SV, bool) {
		c.vc.note("error.Error(): assumed total and pure, returns an arbitrary string")
		return c.vc.freshSV(types.Typ[types.String], "errstr", c.n.St), true
	}

	// ---- io
	models["io.ReadFull"] = func(c *callCtx) *SV {
		vc, st := c.vc, c.n.St
		vc.note(aReadFull)
		r, buf := c.args[0], c.args[1]
		s := r.C[1]
		c.vc.oblige("nil-invoke", "io.ReadFull on a nil reader"+c.where(), c.n.Reach, not(eq(r.C[0], bvLit(tidBits, 0))), "@nopanic")
		nn := vc.freshS(SBV64, "nfull")
		err := vc.freshError(st, "rferr")
		vc.assume(implies(c.n.Reach, and(app("bvsle", bvLit(64, 0), nn), app("bvsle", nn, buf.C[2]),
			eq(not(isErr(err)), eq(nn, buf.C[2])))))
		c.streamRead(s, buf, nn, constLen(buf.C[2]))
		c.setFail(s, isErr(err))
		return tupleSV(c.fn.Signature.Results(), &SV{T: intType, C: []string{nn}}, err)
	}

	// ---- encoding/binary
	for _, bo := range []struct {
		recv string
		big  bool
	}{{"(encoding/binary.bigEndian)", true}, {"(encoding/binary.littleEndian)", false}} {
		for _, w := range []int{2, 4, 8} {
			w, bo := w, bo
			bits := w * 8
			models[fmt.Sprintf("%s.Uint%d", bo.recv, bits)] = func(c *callCtx) *SV {
				vc, st := c.vc, c.n.St
				vc.note(aBinary)
				b := c.args[1]
				vc.oblige("binary-len", fmt.Sprintf("binary Uint%d needs %d bytes%s", bits, w, c.where()), c.n.Reach, app("bvsge", b.C[2], bvLit(64, int64(w))), "@nopanic")
				row := sel(st.H["H8"], b.C[0])
				var parts []string
				for k := 0; k < w; k++ {
					parts = append(parts, sel(row, cellIdx(b.C[1], k)))
				}
				if !bo.big {
					for i, j := 0, len(parts)-1; i < j; i, j = i+1, j-1 {
						parts[i], parts[j] = parts[j], parts[i]
					}
				}
				return &SV{T: c.fn.Signature.Results().At(0).Type(), C: []string{vc.defS(bvSort(bits), app("concat", parts...), "be")}}
			}
			models[fmt.Sprintf("%s.PutUint%d", bo.recv, bits)] = func(c *callCtx) *SV {
				vc, st := c.vc, c.n.St
				vc.note(aBinary)
				b, v := c.args[1], c.args[2]
				vc.oblige("binary-len", fmt.Sprintf("binary PutUint%d needs %d bytes%s", bits, w, c.where()), c.n.Reach, app("bvsge", b.C[2], bvLit(64, int64(w))), "@nopanic")
				row := sel(st.H["H8"], b.C[0])
				for k := 0; k < w; k++ {
					hi := bits - 1 - 8*k
					if !bo.big {
						hi = 8*k + 7
					}
					row = sto(row, cellIdx(b.C[1], k), fmt.Sprintf("((_ extract %d %d) %s)", hi, hi-7, v.C[0]))
				}
				st.H["H8"] = vc.def(heapSort(SBV8), sto(st.H["H8"], b.C[0], row), "H8")
				return nil
			}
		}
	}

	// ---- errors / fmt
	models["errors.New"] = func(c *callCtx) *SV {
		c.vc.note(aErrorsNew)
		return c.vc.nonNilError(c.n.St, "enew")
	}
	models["fmt.Errorf"] = models["errors.New"]
	models["errors.Is"] = func(c *callCtx) *SV {
		c.vc.note("errors.Is: assumed total and pure; true when both arguments are identical, false when err is nil and target is not")
		r := c.vc.freshS(SBool, "is")
		a, b := c.args[0], c.args[1]
		same := and(eq(a.C[0], b.C[0]), eq(a.C[1], b.C[1]), eq(a.C[2], b.C[2]))
		c.vc.assume(implies(same, r))
		c.vc.assume(implies(and(eq(a.C[0], bvLit(tidBits, 0)), not(eq(b.C[0], bvLit(tidBits, 0)))), not(r)))
		return &SV{T: types.Typ[types.Bool], C: []string{r}}
	}
	models["fmt.Sprintf"] = func(c *callCtx) *SV {
		c.vc.note("fmt.Sprintf/Sprint: assumed total and pure, arbitrary string result")
		return c.vc.freshSV(types.Typ[types.String], "sprintf", c.n.St)
	}
	models["fmt.Sprint"] = models["fmt.Sprintf"]
	models["strconv.Itoa"] = models["fmt.Sprintf"]

	// ---- math
	ident := func(c *callCtx) *SV {
		c.vc.note(aFloatBits)
		return &SV{T: c.fn.Signature.Results().At(0).Type(), C: c.args[0].C}
	}
	models["math.Float32bits"] = ident
	models["math.Float32frombits"] = ident
	models["math.Float64bits"] = ident
	models["math.Float64frombits"] = ident
}

package main

import (
	"encoding/json"
	"flag"
	"fmt"
	"os"
	"path/filepath"
	"sort"
	"strconv"
	"strings"
	"time"
)

type Target struct {
	Pkg  string   `json:"pkg"`
	Func string   `json:"func"`
	Tags []string `json:"tags,omitempty"` // report only obligations carrying one of these tags (default: all)
	SkipInstances []string `json:"skip_instances,omitempty"` // generic instances (substring of the instance key) not checked
}

type PropConfig struct {
	ID        string   `json:"id"`
	Packages  []string `json:"packages"`
	Targets   []Target `json:"targets"`
	Lemmas    []string `json:"lemmas"`
	NotDecided []string `json:"not_decided"`
	QuickCases []string `json:"quick_case_suffixes"` // quick tier: of the VCs produced by case splits only those whose name ends in one of these (thorough: all)
	Extra     []string `json:"extra_assumptions"`
}

type KnownFinding struct {
	Property   string `json:"property"`
	Obligation string `json:"obligation"`
	What       string `json:"what"`
}

type KnownFile struct {
	Findings []KnownFinding `json:"findings"`
	Fixed    []string       `json:"fixed"`
}

func main() {
	if len(os.Args) < 2 {
		fmt.Fprintln(os.Stderr, "usage: govc check|dump ...")
		os.Exit(2)
	}
	switch os.Args[1] {
	case "check":
		os.Exit(cmdCheck(os.Args[2:]))
	default:
		fmt.Fprintln(os.Stderr, "unknown command")
		os.Exit(2)
	}
}

func cmdCheck(args []string) int {
	fs := flag.NewFlagSet("check", flag.ExitOnError)
	prop := fs.String("prop", "", "property id")
	tier := fs.String("tier", "quick", "quick|thorough")
	repo := fs.String("repo", "/repo", "repository root")
	verif := fs.String("verif", "/verif", "verification root")
	only := fs.String("only", "", "only functions whose key contains this")
	caseF := fs.String("case", "", "only VCs whose name contains this")
	keep := fs.Bool("keep", false, "keep the scratch directory")
	dump := fs.Bool("dump", false, "print every obligation")
	noEvidence := fs.Bool("no-evidence", false, "do not write the evidence file")
	fs.Parse(args)
	if t := os.Getenv("VERIF_TIER"); t == "quick" || t == "thorough" {
		*tier = t
	}
	seed := 0
	if s := os.Getenv("VERIF_SEED"); s != "" {
		if v, err := strconv.Atoi(s); err == nil {
			seed = v
		}
	}
	start := time.Now()
	var cfg PropConfig
	data, err := os.ReadFile(filepath.Join(*verif, "properties", *prop+".json"))
	if err != nil {
		fmt.Fprintln(os.Stderr, "govc:", err)
		return 2
	}
	if err := json.Unmarshal(data, &cfg); err != nil {
		fmt.Fprintln(os.Stderr, "govc: bad property config:", err)
		return 2
	}
	eng, err := loadEngine(*repo, cfg.Packages, filepath.Join(*verif, "contracts", "spec"))
	if err != nil {
		fmt.Fprintln(os.Stderr, "govc:", err)
		return 2
	}
	loadS := time.Since(start).Seconds()

	scratch, _ := os.MkdirTemp("/var/tmp", "govc-")
	if !*keep {
		defer os.RemoveAll(scratch)
	} else {
		fmt.Println("scratch:", scratch)
	}

	var obls []*Obligation
	skippedCases := 0
	var vcs []*VC
	var funcs []string
	var genErrs []string
	for _, t := range cfg.Targets {
		if *only != "" && !strings.Contains(t.Func, *only) {
			continue
		}
		pkg := modulePath
		if t.Pkg != "" {
			pkg += "/" + t.Pkg
		}
		fc := eng.contracts.Funcs[pkg+"::"+t.Func]
		if fc == nil {
			genErrs = append(genErrs, fmt.Sprintf("CONTRACT-STALE: no contract for %s::%s", pkg, t.Func))
			continue
		}
		fns := eng.findFuncs(pkg, t.Func)
		if len(fns) == 0 {
			genErrs = append(genErrs, fmt.Sprintf("CONTRACT-STALE: contract names %s::%s but no such function exists", pkg, t.Func))
			continue
		}
		for _, fn := range fns {
			skip := false
			for _, sk := range t.SkipInstances {
				if strings.Contains(instanceKey(fn), sk) {
					skip = true
				}
			}
			if skip {
				cfg.Extra = append(cfg.Extra, "generic instance not checked: "+instanceKey(fn))
				continue
			}
			fc := fc
			if ifc := eng.contractFor(fn); ifc != nil && ifc != fc && len(fn.TypeArgs()) > 0 {
				fc = ifc // a contract written for this particular generic instance takes precedence
			}
			fvcs, err := eng.verifyFunc(fn, fc)
			if err != nil {
				genErrs = append(genErrs, err.Error())
				continue
			}
			funcs = append(funcs, fn.String())
			var tagset map[string]bool
			if len(t.Tags) > 0 {
				tagset = map[string]bool{}
				for _, tg := range t.Tags {
					tagset[tg] = true
				}
			}
			for _, vc := range fvcs {
				if *caseF != "" && !strings.Contains(vc.Name, *caseF) {
					continue
				}
				if *tier == "quick" && len(cfg.QuickCases) > 0 && strings.Contains(vc.Name, "#loop") {
					keep := false
					for _, sfx := range cfg.QuickCases {
						if strings.HasSuffix(vc.Name, sfx) {
							keep = true
						}
					}
					if !keep {
						skippedCases++
						continue
					}
				}
				vcs = append(vcs, vc)
				for _, o := range vc.obls {
					if tagset != nil && !o.Cover {
						hit := false
						for _, tg := range o.Tags {
							if tagset[tg] {
								hit = true
							}
						}
						if !hit {
							continue
						}
					}
					obls = append(obls, o)
				}
			}
		}
	}
	for _, ln := range cfg.Lemmas {
		if *only != "" && !strings.Contains(ln, *only) {
			continue
		}
		found := false
		for _, lm := range eng.contracts.Lemmas {
			if lm.Name == ln {
				found = true
				vc, err := eng.verifyLemma(lm)
				if err != nil {
					genErrs = append(genErrs, err.Error())
					continue
				}
				vcs = append(vcs, vc)
				obls = append(obls, vc.obls...)
			}
		}
		if !found {
			genErrs = append(genErrs, "CONTRACT-STALE: no lemma named "+ln)
		}
	}
	// A function whose verification conditions cannot be generated any more
	// (a loop the contract does not know, an invariant naming a variable that
	// is gone, a construct outside the verified subset, a contracted function
	// that no longer exists) is an obligation that can no longer be discharged:
	// it is reported like any other undischarged obligation, without a
	// counterexample.
	for i, e := range genErrs {
		fmt.Println("ERROR:", e)
		name := e
		if k := strings.Index(e, ": "); k > 0 && k < 120 {
			name = e[:k]
		}
		vc := eng.newVC(name)
		o := &Obligation{Name: fmt.Sprintf("%s::contract-applies[%d]", name, i), Kind: "contract-applies", Goal: "false", VC: vc,
			Note: "the contract no longer applies to the code: " + e, Status: "undischarged", Solver: "none", Pre: true, Output: e}
		vcs = append(vcs, vc)
		obls = append(obls, o)
	}
	genS := time.Since(start).Seconds() - loadS

	d := &Discharger{dir: scratch, timeoutS: 100, seed: seed, par: 8}
	if *tier == "thorough" {
		d.timeoutS = 200
	}
	solveStart := time.Now()
	d.run(obls)
	solveS := time.Since(solveStart).Seconds()

	if skippedCases > 0 {
		cfg.Extra = append(cfg.Extra, fmt.Sprintf("QUICK TIER SUBSET: %d of the case-split VCs were not generated in this run (suffixes kept: %v); the thorough tier runs all cases", skippedCases, cfg.QuickCases))
		fmt.Printf("govc: quick tier ran a subset of the split cases (%d skipped); thorough runs all\n", skippedCases)
	}
	return report(eng, &cfg, *tier, seed, *verif, *repo, funcs, vcs, obls, *dump, *noEvidence, loadS, genS, solveS, time.Since(start).Seconds())
}

func report(eng *Engine, cfg *PropConfig, tier string, seed int, verif, repo string, funcs []string, vcs []*VC, obls []*Obligation,
	dump, noEvidence bool, loadS, genS, solveS, wallS float64) int {
	var known KnownFile
	if data, err := os.ReadFile(filepath.Join(verif, "known_findings.json")); err == nil {
		json.Unmarshal(data, &known)
	}
	isKnown := func(o *Obligation) *KnownFinding {
		for i := range known.Findings {
			k := &known.Findings[i]
			if k.Property == cfg.ID && k.Obligation == o.Name {
				return k
			}
		}
		return nil
	}
	nObl, nDis, nCover, nCoverOK, nBounded := 0, 0, 0, 0, 0
	var solverMs int64
	bySolver := map[string]int{}
	var failed []*Obligation
	var perObl []map[string]interface{}
	// a cover of a split function must be satisfiable in at least one case
	coverKey := func(o *Obligation) string {
		n := o.Name
		if k := strings.Index(n, "#"); k >= 0 {
			if e := strings.Index(n[k:], "::"); e >= 0 {
				// the per-case index of a cover differs between cases (other loops are reached): identify
				// it by kind and description instead
				return n[:k] + "::" + o.Kind + ":" + o.Note
			}
		}
		return n
	}
	coverSat := map[string]bool{}
	for _, o := range obls {
		if o.Cover && (o.Status == "cover-ok" || o.Status == "cover-unknown") {
			coverSat[coverKey(o)] = true
		}
	}
	sort.SliceStable(obls, func(i, j int) bool { return false })
	var slow []*Obligation
	slow = append(slow, obls...)
	sort.Slice(slow, func(i, j int) bool { return slow[i].Ms > slow[j].Ms })
	for i := 0; i < len(slow) && i < 5 && dump; i++ {
		fmt.Printf("  slowest: %6dms %s %s\n", slow[i].Ms, slow[i].Solver, slow[i].Name)
	}
	for _, o := range obls {
		solverMs += o.Ms
		if o.Cover {
			nCover++
			if coverSat[coverKey(o)] {
				nCoverOK++
			} else {
				failed = append(failed, o)
			}
		} else {
			nObl++
			if o.Bounded {
				nBounded++
			}
			if o.Status == "discharged" {
				nDis++
				bySolver[o.Solver]++
			} else {
				failed = append(failed, o)
			}
		}
		if dump || (o.Status != "discharged" && o.Status != "cover-ok") {
			fmt.Printf("  %-13s %-8s %6dms  %s\n", o.Status, o.Solver, o.Ms, o.Name)
		}
		perObl = append(perObl, map[string]interface{}{"name": o.Name, "result": o.Status, "solver": o.Solver, "ms": o.Ms, "tags": o.Tags, "bounded": o.Bounded})
	}
	exit := 0
	replayDir := filepath.Join(verif, "out", "replay", cfg.ID)
	os.MkdirAll(replayDir, 0o755)
	old, _ := filepath.Glob(filepath.Join(replayDir, "*.json"))
	for _, f := range old {
		os.Remove(f)
	}
	var knownHit []string
	violations := 0
	for i, o := range failed {
		if k := isKnown(o); k != nil {
			fmt.Printf("KNOWN-FINDING: property=%s %s: %s\n", cfg.ID, o.Name, k.What)
			knownHit = append(knownHit, o.Name)
			continue
		}
		violations++
		exit = 1
		path := filepath.Join(replayDir, fmt.Sprintf("%03d_%s.json", i, sanitize(o.Name)))
		confirmed := writeReplay(eng, repo, path, cfg.ID, o)
		suffix := ""
		if !confirmed {
			suffix = " no-failing-input-found"
		}
		fmt.Printf("FAILED %s [%s] %s\n", o.Name, o.Status, o.Note)
		fmt.Printf("VIOLATION property=%s replay=%s%s\n", cfg.ID, path, suffix)
	}
	if nObl == 0 {
		fmt.Printf("govc: %s: zero obligations generated — vacuous check\n", cfg.ID)
		exit = 2
	}
	assumptions := map[string]bool{}
	for _, vc := range vcs {
		for a := range vc.Assumed {
			assumptions[a] = true
		}
	}
	for _, s := range eng.contracts.Scan {
		assumptions["contract file mentions assume/trusted: "+s] = true
	}
	for _, x := range cfg.Extra {
		assumptions[x] = true
	}
	for _, nd := range cfg.NotDecided {
		assumptions["NOT DECIDED by this check: "+nd] = true
	}
	var alist []string
	for a := range assumptions {
		alist = append(alist, a)
	}
	sort.Strings(alist)
	fmt.Printf("govc %s tier=%s: %d functions under contract, %d obligations, %d discharged (%v), %d covers (%d ok), bounded=%d, load %.1fs gen %.1fs solve %.1fs (solver cpu %.1fs), wall %.1fs\n",
		cfg.ID, tier, len(funcs), nObl, nDis, bySolver, nCover, nCoverOK, nBounded, loadS, genS, solveS, float64(solverMs)/1000, wallS)
	if !noEvidence {
		samples := []interface{}{}
		var proofObls []*Obligation
		for _, o := range obls {
			if !o.Cover {
				proofObls = append(proofObls, o)
			}
		}
		if len(proofObls) == 0 {
			proofObls = obls
		}
		for i, o := range proofObls {
			if i%((len(proofObls)/4)+1) == 0 {
				samples = append(samples, map[string]interface{}{"name": o.Name, "note": o.Note, "goal_smt": truncate(o.Goal, 600), "result": o.Status, "solver": o.Solver})
			}
		}
		ev := map[string]interface{}{
			"property_id": cfg.ID,
			"tier":        tier,
			"seed":        seed,
			"level":       "proof",
			"coverage": map[string]interface{}{
				"obligations":              nObl,
				"discharged":               nDis,
				"checker_cmd":              fmt.Sprintf("/verif/bin/govc check -prop %s -tier %s  (VC generation over go/ssa of %s; portfolio z3-new 5.1.0 / z3 4.8.12 / cvc5 1.0.3)", cfg.ID, tier, repo),
				"trusted_base":             []string{"go/parser, go/types, go/ssa (x/tools v0.29.0)", "govc translation of SSA to SMT-LIB (/verif/engine)", "z3 4.8.12, z3 5.1.0, cvc5 1.0.3 (unsat answers believed)", "assumed library contracts listed under assumptions"},
				"functions_under_contract": funcs,
				"discharged_by_solver":     bySolver,
				"covers":                   nCover,
				"covers_ok":                nCoverOK,
				"bounded_obligations":      nBounded,
				"solver_time_s":            float64(solverMs) / 1000,
				"load_s":                   loadS,
				"vcgen_s":                  genS,
				"samples":                  samples,
				"per_obligation":           perObl,
				"known_findings_hit":       knownHit,
				"integer_semantics":        "all Go integers are bit-vectors of their declared width (machine arithmetic, nothing treated as mathematical)",
			},
			"assumptions": alist,
			"wall_s":      wallS,
			"violations":  violations,
		}
		os.MkdirAll(filepath.Join(verif, "evidence"), 0o755)
		data, _ := json.MarshalIndent(ev, "", " ")
		os.WriteFile(filepath.Join(verif, "evidence", cfg.ID+".json"), data, 0o644)
	}
	return exit
}

func truncate(s string, n int) string {
	if len(s) > n {
		return s[:n] + "…"
	}
	return s
}

package main

import (
	"fmt"
	"sort"
	"strings"

	"golang.org/x/tools/go/ssa"
)

// Loop is a natural loop of the SSA control-flow graph.
type Loop struct {
	Header  *ssa.BasicBlock
	Body    map[*ssa.BasicBlock]bool
	Ordinal int // position among the function's loops, by header block index
	Ann     *LoopAnn
}

func findLoops(fn *ssa.Function) []*Loop {
	byHeader := map[*ssa.BasicBlock]*Loop{}
	for _, b := range fn.Blocks {
		for _, s := range b.Succs {
			if s.Dominates(b) { // back edge b -> s
				l := byHeader[s]
				if l == nil {
					l = &Loop{Header: s, Body: map[*ssa.BasicBlock]bool{s: true}}
					byHeader[s] = l
				}
				// natural loop: everything that reaches b without passing s
				stack := []*ssa.BasicBlock{b}
				for len(stack) > 0 {
					x := stack[len(stack)-1]
					stack = stack[:len(stack)-1]
					if l.Body[x] {
						continue
					}
					l.Body[x] = true
					stack = append(stack, x.Preds...)
				}
			}
		}
	}
	var loops []*Loop
	for _, l := range byHeader {
		loops = append(loops, l)
	}
	sort.Slice(loops, func(i, j int) bool { return loops[i].Header.Index < loops[j].Header.Index })
	for i, l := range loops {
		l.Ordinal = i
	}
	return loops
}

// Node is an instance of a basic block in the loop-free expansion of the CFG:
// the block plus an iteration count for each enclosing loop.
type Node struct {
	B     *ssa.BasicBlock
	Iters map[*Loop]int
	Key   string
	Succs []*succEdge
	In    []*Edge // incoming edges, filled while executing
	Reach string
	St    *State
	done  bool
}

type succEdge struct {
	To      *Node
	PredIdx int    // index of the source block in To.B.Preds
	Sink    string // "", "unwind", "bounded", "invariant"
	Loop    *Loop
}

// Edge is an executed control-flow edge with its condition and the state it carries.
type Edge struct {
	From    *Node
	PredIdx int
	Cond    string
	St      *State
}

type Graph struct {
	Fn    *ssa.Function
	Loops []*Loop
	Nodes map[string]*Node
	Order []*Node // topological order
	Entry *Node
}

func nodeKey(b *ssa.BasicBlock, iters map[*Loop]int, loops []*Loop) string {
	var sb strings.Builder
	fmt.Fprintf(&sb, "b%d", b.Index)
	for _, l := range loops {
		if it, ok := iters[l]; ok {
			fmt.Fprintf(&sb, "_L%di%d", l.Ordinal, it)
		}
	}
	return sb.String()
}

func predIndex(from, to *ssa.BasicBlock, occurrence int) int {
	n := 0
	for i, p := range to.Preds {
		if p == from {
			if n == occurrence {
				return i
			}
			n++
		}
	}
	panic("pred not found")
}

func buildGraph(fn *ssa.Function, anns map[int]*LoopAnn) (*Graph, error) {
	g := &Graph{Fn: fn, Loops: findLoops(fn), Nodes: map[string]*Node{}}
	for _, l := range g.Loops {
		l.Ann = anns[l.Ordinal]
		if l.Ann == nil {
			return nil, fmt.Errorf("loop %d of %s has no annotation (unroll/invariant)", l.Ordinal, fn.String())
		}
	}
	for k := range anns {
		if k >= len(g.Loops) {
			return nil, fmt.Errorf("CONTRACT-STALE: %s has %d loops but an annotation names loop %d", fn.String(), len(g.Loops), k)
		}
	}
	var post []*Node
	var visit func(n *Node)
	mk := func(b *ssa.BasicBlock, iters map[*Loop]int) *Node {
		k := nodeKey(b, iters, g.Loops)
		if n, ok := g.Nodes[k]; ok {
			return n
		}
		n := &Node{B: b, Iters: iters, Key: k}
		g.Nodes[k] = n
		return n
	}
	visiting := map[*Node]bool{}
	visited := map[*Node]bool{}
	visit = func(n *Node) {
		if visited[n] {
			return
		}
		if visiting[n] {
			panic(unsupported("irreducible control flow in " + fn.String()))
		}
		visiting[n] = true
		seen := map[*ssa.BasicBlock]int{}
		for _, sb := range n.B.Succs {
			occ := seen[sb]
			seen[sb]++
			pi := predIndex(n.B, sb, occ)
			iters := map[*Loop]int{}
			sink := ""
			var sinkLoop *Loop
			for _, l := range g.Loops {
				if !l.Body[sb] {
					continue
				}
				cur, inside := n.Iters[l]
				switch {
				case sb == l.Header && inside && l.Body[n.B]:
					// back edge
					limit := l.Ann.N
					if l.Ann.Kind == "invariant" {
						limit = 0
					}
					if cur+1 > limit || l.Ann.Kind == "invariant" {
						sink = l.Ann.Kind
						if sink == "unroll" {
							sink = "unwind"
						}
						sinkLoop = l
					}
					iters[l] = cur + 1
				case sb == l.Header:
					iters[l] = 0
				case inside:
					iters[l] = cur
				default:
					// jump into the middle of a loop
					panic(unsupported("entry into loop body not through header in " + fn.String()))
				}
			}
			if sink != "" {
				n.Succs = append(n.Succs, &succEdge{To: nil, PredIdx: pi, Sink: sink, Loop: sinkLoop})
				continue
			}
			to := mk(sb, iters)
			n.Succs = append(n.Succs, &succEdge{To: to, PredIdx: pi})
			visit(to)
		}
		visiting[n] = false
		visited[n] = true
		post = append(post, n)
	}
	g.Entry = mk(fn.Blocks[0], map[*Loop]int{})
	visit(g.Entry)
	for i := len(post) - 1; i >= 0; i-- {
		g.Order = append(g.Order, post[i])
	}
	if len(g.Order) > 20000 {
		return nil, fmt.Errorf("expanded graph of %s too large (%d nodes)", fn.String(), len(g.Order))
	}
	return g, nil
}

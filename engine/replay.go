package main

import (
	"bytes"
	"encoding/json"
	"fmt"
	"go/types"
	"math/big"
	"os"
	"os/exec"
	"path/filepath"
	"regexp"
	"sort"
	"strings"

	"golang.org/x/tools/go/ssa"
)

// Replay of counterexamples against the real code.
//
// For a refuted obligation the solver's model is turned into a concrete call
// of the real function (in-package test injected with `go test -overlay`).
// The counterexample counts as confirmed when
//   - the obligation is a panic-freedom obligation and the real call panics, or
//   - the obligation is a postcondition / frame obligation and the real call
//     returns exactly the outputs the model predicted (results, bytes
//     consumed / produced, final value of the pointer receiver); the model is
//     then a faithful trace of the real execution and the clause that is false
//     in the model is false on the real code.
// Anything else is reported as no-failing-input-found.

const streamCells = 48

type rpInput struct {
	Name  string
	Kind  string // scalar, ptrscalar, bytes, ptrbytes, reader, writer
	Type  types.Type
	Terms []string // terms whose model values are needed
}

type rpOutput struct {
	Name  string
	Kind  string // scalar, errnil, consumed, written, deref
	Type  types.Type
	Terms []string
}

type rpEvent struct {
	Kind  string // read, write
	Obj   string // stream / sink term
	Reach string
	N     string
	Err   string // tid term of the error
	Pos   string // position before the call
	Line  int    // script line at which the terms are defined
}

func (r *ReplaySpec) getValues() []string {
	if r == nil {
		return nil
	}
	var out []string
	for _, in := range r.inputs {
		out = append(out, in.Terms...)
	}
	return out
}

// getValuesAt also asks for the read events (chunk sizes of opaque Read
// calls) that are defined before script line `prefix`.
func (r *ReplaySpec) getValuesAt(prefix int) []string {
	out := r.getValues()
	if r == nil {
		return out
	}
	rd := r.data()
	for _, ev := range rd.events {
		if ev.Line < prefix {
			out = append(out, ev.Reach, ev.N)
		}
	}
	return out
}

// smallModelHints: constraints preferring short slices / streams, used for a
// second query whose model is easier to replay.
func (r *ReplaySpec) smallModelHints() []string {
	var out []string
	if r == nil {
		return nil
	}
	for _, in := range r.inputs {
		switch in.Kind {
		case "bytes", "ptrbytes":
			out = append(out, app("bvsle", in.Terms[0], bvLit(64, 40)), app("bvsle", in.Terms[1], bvLit(64, 40)))
		case "string", "ptrstring":
			out = append(out, app("bvsle", in.Terms[0], bvLit(64, 40)))
		case "reader":
			out = append(out, app("bvsle", in.Terms[0], bvLit(64, 40)))
		}
	}
	return out
}

// noteRead records an opaque Read call (for scripted short reads in the replay).
func (vc *VC) noteRead(reach, n string) {
	if vc.replay == nil {
		return
	}
	rd := vc.replay.data()
	rd.events = append(rd.events, rpEvent{Kind: "read", Reach: reach, N: n, Line: len(vc.lines)})
}

type replayData struct {
	fn      *ssa.Function
	inputs  []rpInput
	outputs []rpOutput
	events  []rpEvent
	ok      bool
	why     string
}

var replayStore = map[*ReplaySpec]*replayData{}

func (r *ReplaySpec) data() *replayData { return replayStore[r] }

// inputs is kept on the spec through the side table (ReplaySpec is shared by
// all obligations of a VC).
type replayInputs = []rpInput

func (vc *VC) makeReplay(fc *FuncContract, fn *ssa.Function, params []*SV, st *State) *ReplaySpec {
	rs := &ReplaySpec{Contract: fc}
	rd := &replayData{fn: fn, ok: true}
	replayStore[rs] = rd
	for i, p := range fn.Params {
		sv := params[i]
		name := fmt.Sprintf("a%d", i)
		t := p.Type()
		switch u := t.Underlying().(type) {
		case *types.Basic:
			if isString(t) {
				rd.inputs = append(rd.inputs, rpInput{name, "string", t, append([]string{sv.C[2]}, cells(st.H["H8"], sv.C[0], sv.C[1], streamCells)...)})
			} else {
				rd.inputs = append(rd.inputs, rpInput{name, "scalar", t, []string{sv.C[0]}})
			}
		case *types.Slice:
			if !isByteSlice(t) {
				rd.ok, rd.why = false, "parameter of type "+t.String()
				break
			}
			rd.inputs = append(rd.inputs, rpInput{name, "bytes", t, append([]string{sv.C[2], sv.C[3]}, cells(st.H["H8"], sv.C[0], sv.C[1], streamCells)...)})
		case *types.Pointer:
			et := u.Elem()
			l := layout(et)
			switch {
			case len(l) == 1:
				rd.inputs = append(rd.inputs, rpInput{name, "ptrscalar", t, []string{sel2(st.H[l[0].heap()], sv.C[0], sv.C[1])}})
			case isString(et):
				base := sel2(st.H["Href"], sv.C[0], sv.C[1])
				off := sel2(st.H["H64"], sv.C[0], cellIdx(sv.C[1], 1))
				ln := sel2(st.H["H64"], sv.C[0], cellIdx(sv.C[1], 2))
				rd.inputs = append(rd.inputs, rpInput{name, "ptrstring", t, append([]string{ln}, cells(st.H["H8"], base, off, streamCells)...)})
			case isByteSlice(et):
				base := sel2(st.H["Href"], sv.C[0], sv.C[1])
				off := sel2(st.H["H64"], sv.C[0], cellIdx(sv.C[1], 1))
				ln := sel2(st.H["H64"], sv.C[0], cellIdx(sv.C[1], 2))
				cp := sel2(st.H["H64"], sv.C[0], cellIdx(sv.C[1], 3))
				rd.inputs = append(rd.inputs, rpInput{name, "ptrbytes", t, append([]string{ln, cp}, cells(st.H["H8"], base, off, streamCells)...)})
			default:
				if _, isStruct := et.Underlying().(*types.Struct); isStruct && allScalarFields(et) {
					var ts []string
					for k, s := range l {
						ts = append(ts, sel2(st.H[s.heap()], sv.C[0], cellIdx(sv.C[1], k)))
					}
					rd.inputs = append(rd.inputs, rpInput{name, "ptrstruct", t, ts})
				} else {
					rd.ok, rd.why = false, "parameter of type "+t.String()
				}
			}
		case *types.Interface:
			switch {
			case t.String() == "io.Reader":
				s := sv.C[1]
				vc.saneStream(s)
				p0 := sel(st.H["Spos"], s)
				ts := []string{app("bvsub", sel("Send", s), p0)}
				for k := 0; k < streamCells; k++ {
					ts = append(ts, sel2("Sin", s, cellIdx(p0, k)))
				}
				rd.inputs = append(rd.inputs, rpInput{name, "reader", t, ts})
			case t.String() == "io.Writer":
				rd.inputs = append(rd.inputs, rpInput{name, "writer", t, nil})
			default:
				rd.ok, rd.why = false, "parameter of interface type "+t.String()
			}
		case *types.Struct:
			if allScalarFields(t) {
				rd.inputs = append(rd.inputs, rpInput{name, "struct", t, sv.C})
			} else {
				rd.ok, rd.why = false, "parameter of type "+t.String()
			}
		case *types.Array:
			if len(sv.C) <= 64 && len(layout(u.Elem())) == 1 {
				rd.inputs = append(rd.inputs, rpInput{name, "array", t, sv.C})
			} else {
				rd.ok, rd.why = false, "parameter of type "+t.String()
			}
		default:
			rd.ok, rd.why = false, "parameter of type "+t.String()
		}
	}
	rs.inputs = rd.inputs
	return rs
}

func allScalarFields(t types.Type) bool {
	st, ok := t.Underlying().(*types.Struct)
	if !ok {
		return false
	}
	for i := 0; i < st.NumFields(); i++ {
		if _, ok := st.Field(i).Type().Underlying().(*types.Basic); !ok || isString(st.Field(i).Type()) {
			return false
		}
	}
	return true
}

var ioReader *types.Interface

func ioReaderIface() *types.Interface {
	if ioReader == nil {
		ioReader = types.NewInterfaceType(nil, nil)
	}
	return ioReader
}

func cells(heap, base, off string, n int) []string {
	var out []string
	for k := 0; k < n; k++ {
		out = append(out, sel2(heap, base, cellIdx(off, k)))
	}
	return out
}

func (r *ReplaySpec) addResults(fc *FuncContract, results []*SV, final *State) {
	rd := r.data()
	if rd == nil {
		return
	}
	sig := rd.fn.Signature
	for i, res := range results {
		t := sig.Results().At(i).Type()
		name := fmt.Sprintf("r%d", i)
		switch {
		case isInterface(t) && t.String() == "error":
			rd.outputs = append(rd.outputs, rpOutput{name, "errnil", t, []string{res.C[0]}})
		case len(layout(t)) == 1:
			rd.outputs = append(rd.outputs, rpOutput{name, "scalar", t, []string{res.C[0]}})
		}
	}
	// consumed / deref
	for _, in := range rd.inputs {
		switch in.Kind {
		case "reader":
			// the stream term is inside the first cell term: recover it from the spec
		}
	}
	r.outputs = rd.outputs
	r.final = final
}

// finalTerms adds, per input, the terms describing its final state.
func (r *ReplaySpec) finalTerms(vc *VC, params []*SV) {}

// ---------------------------------------------------------------- model parsing

func parseGetValue(out string) []string {
	// drop the first line (sat)
	k := strings.Index(out, "\n")
	if k < 0 {
		return nil
	}
	rest := strings.TrimSpace(out[k+1:])
	if !strings.HasPrefix(rest, "(") {
		return nil
	}
	defer func() { recover() }()
	sx := parseSexp(rest)
	var vals []string
	for _, pair := range sx.list {
		if len(pair.list) != 2 {
			return nil
		}
		vals = append(vals, pair.list[1].String())
	}
	return vals
}

func modelInt(v string) (*big.Int, int, bool) {
	if b, w, ok := litVal(v); ok {
		return b, w, true
	}
	// (_ bv10 32)
	m := regexp.MustCompile(`^\(_ bv(\d+) (\d+)\)$`).FindStringSubmatch(v)
	if m != nil {
		b, _ := new(big.Int).SetString(m[1], 10)
		var w int
		fmt.Sscanf(m[2], "%d", &w)
		return b, w, true
	}
	return nil, 0, false
}

func signedVal(b *big.Int, w int) *big.Int {
	if b.Bit(w-1) == 1 {
		return new(big.Int).Sub(b, new(big.Int).Lsh(big.NewInt(1), uint(w)))
	}
	return b
}

// ---------------------------------------------------------------- harness generation

type harness struct {
	pkg     *types.Package
	imports map[string]bool
	body    bytes.Buffer
}

func (h *harness) typeStr(t types.Type) string {
	return types.TypeString(t, func(p *types.Package) string {
		if p == h.pkg {
			return ""
		}
		h.imports[p.Path()] = true
		return p.Name()
	})
}

func (h *harness) scalarLit(t types.Type, v string) (string, bool) {
	ts := h.typeStr(t)
	switch {
	case isBool(t):
		return fmt.Sprintf("%s(%s)", ts, v), v == "true" || v == "false"
	case isFloat(t):
		b, w, ok := modelInt(v)
		if !ok {
			return "", false
		}
		h.imports["math"] = true
		if w == 32 {
			return fmt.Sprintf("%s(math.Float32frombits(0x%x))", ts, b), true
		}
		return fmt.Sprintf("%s(math.Float64frombits(0x%x))", ts, b), true
	case isInteger(t):
		b, w, ok := modelInt(v)
		if !ok {
			return "", false
		}
		if isSigned(t) {
			b = signedVal(b, w)
		}
		return fmt.Sprintf("%s(%s)", ts, b.String()), true
	}
	return "", false
}

func bytesLit(vals []string, n int) (string, bool) {
	var sb strings.Builder
	sb.WriteString("[]byte{")
	for i := 0; i < n; i++ {
		var b *big.Int
		if i < len(vals) {
			x, _, ok := modelInt(vals[i])
			if !ok {
				return "", false
			}
			b = x
		} else {
			b = big.NewInt(0)
		}
		fmt.Fprintf(&sb, "0x%02x,", b.Int64())
	}
	sb.WriteString("}")
	return sb.String(), true
}

func clampLen(v string, max int64) (int64, bool) {
	b, w, ok := modelInt(v)
	if !ok {
		return 0, false
	}
	b = signedVal(b, w)
	if b.Sign() < 0 {
		return 0, true
	}
	if b.Cmp(big.NewInt(max)) > 0 {
		return max, true
	}
	return b.Int64(), true
}

const harnessPrelude = `
type govcReader struct {
	data   []byte
	pos    int
	chunks []int // sizes of the first Read calls, from the solver's model
	calls  int
}

func (r *govcReader) Read(p []byte) (int, error) {
	if len(p) == 0 {
		return 0, nil
	}
	if r.pos >= len(r.data) {
		return 0, io.EOF
	}
	lim := len(p)
	if r.calls < len(r.chunks) && r.chunks[r.calls] >= 1 && r.chunks[r.calls] < lim {
		lim = r.chunks[r.calls]
	}
	r.calls++
	n := copy(p[:lim], r.data[r.pos:])
	r.pos += n
	return n, nil
}

type govcWriter struct {
	buf []byte
}

func (w *govcWriter) Write(p []byte) (int, error) {
	w.buf = append(w.buf, p...)
	return len(p), nil
}
`

// buildHarness renders the test source for the given model values.
func buildHarness(rd *replayData, vals []string) (src string, ok bool, why string) {
	fn := rd.fn
	if fn.Pkg == nil {
		return "", false, "generic instance (no replay harness)"
	}
	pkg := fn.Pkg.Pkg
	h := &harness{pkg: pkg, imports: map[string]bool{"testing": true, "fmt": true, "io": true}}
	b := &h.body
	idx := 0
	take := func(n int) []string {
		v := vals[idx : idx+n]
		idx += n
		return v
	}
	var callArgs []string
	var post []string
	// chunk sizes of the opaque Read calls the model executed (they follow the inputs in vals)
	chunkList := ""
	{
		nin := 0
		for _, in := range rd.inputs {
			nin += len(in.Terms)
		}
		for k := nin; k+1 < len(vals); k += 2 {
			if vals[k] == "true" {
				if c, ok := clampLen(vals[k+1], 1<<16); ok {
					chunkList += fmt.Sprintf("%d,", c)
				}
			}
		}
	}
	for _, in := range rd.inputs {
		if idx+len(in.Terms) > len(vals) {
			return "", false, "model has too few values"
		}
		v := take(len(in.Terms))
		switch in.Kind {
		case "scalar":
			lit, ok := h.scalarLit(in.Type, v[0])
			if !ok {
				return "", false, "cannot render scalar " + v[0]
			}
			fmt.Fprintf(b, "\t%s := %s\n", in.Name, lit)
			callArgs = append(callArgs, in.Name)
		case "ptrscalar":
			et := in.Type.Underlying().(*types.Pointer).Elem()
			lit, ok := h.scalarLit(et, v[0])
			if !ok {
				return "", false, "cannot render scalar " + v[0]
			}
			fmt.Fprintf(b, "\t%s := new(%s)\n\t*%s = %s\n", in.Name, h.typeStr(et), in.Name, lit)
			callArgs = append(callArgs, in.Name)
			post = append(post, fmt.Sprintf("\tfmt.Printf(\"GOVC-DEREF %s %%v\\n\", *%s)\n", in.Name, in.Name))
		case "string":
			n, ok := clampLen(v[0], streamCells)
			if !ok {
				return "", false, "bad string length"
			}
			lit, ok := bytesLit(v[1:], int(n))
			if !ok {
				return "", false, "bad string bytes"
			}
			fmt.Fprintf(b, "\t%s := %s(%s)\n", in.Name, h.typeStr(in.Type), lit)
			callArgs = append(callArgs, in.Name)
		case "ptrstring":
			n, ok := clampLen(v[0], streamCells)
			if !ok {
				return "", false, "bad string length"
			}
			lit, ok := bytesLit(v[1:], int(n))
			if !ok {
				return "", false, "bad string bytes"
			}
			et := in.Type.Underlying().(*types.Pointer).Elem()
			fmt.Fprintf(b, "\t%s := new(%s)\n\t*%s = %s(%s)\n", in.Name, h.typeStr(et), in.Name, h.typeStr(et), lit)
			callArgs = append(callArgs, in.Name)
			post = append(post, fmt.Sprintf("\tfmt.Printf(\"GOVC-DEREF %s %%q\\n\", string(*%s))\n", in.Name, in.Name))
		case "bytes", "ptrbytes":
			n, ok1 := clampLen(v[0], 1<<16)
			c, ok2 := clampLen(v[1], 1<<16)
			if !ok1 || !ok2 {
				return "", false, "bad slice length"
			}
			if c < n {
				c = n
			}
			lit, ok := bytesLit(v[2:], int(min64(n, streamCells)))
			if !ok {
				return "", false, "bad slice bytes"
			}
			if in.Kind == "bytes" {
				fmt.Fprintf(b, "\t%s := make(%s, %d, %d)\n\tcopy(%s, %s)\n", in.Name, h.typeStr(in.Type), n, c, in.Name, lit)
			} else {
				et := in.Type.Underlying().(*types.Pointer).Elem()
				fmt.Fprintf(b, "\t%s := new(%s)\n\t*%s = make(%s, %d, %d)\n\tcopy(*%s, %s)\n", in.Name, h.typeStr(et), in.Name, h.typeStr(et), n, c, in.Name, lit)
				post = append(post, fmt.Sprintf("\tfmt.Printf(\"GOVC-DEREF %s len=%%d %%x\\n\", len(*%s), []byte(*%s))\n", in.Name, in.Name, in.Name))
			}
			callArgs = append(callArgs, in.Name)
		case "struct", "ptrstruct":
			t := in.Type
			if in.Kind == "ptrstruct" {
				t = t.Underlying().(*types.Pointer).Elem()
			}
			st := t.Underlying().(*types.Struct)
			var fs []string
			for i := 0; i < st.NumFields(); i++ {
				lit, ok := h.scalarLit(st.Field(i).Type(), v[i])
				if !ok {
					return "", false, "cannot render field"
				}
				fs = append(fs, fmt.Sprintf("%s: %s", st.Field(i).Name(), lit))
			}
			amp := ""
			if in.Kind == "ptrstruct" {
				amp = "&"
				post = append(post, fmt.Sprintf("\tfmt.Printf(\"GOVC-DEREF %s %%v\\n\", *%s)\n", in.Name, in.Name))
			}
			fmt.Fprintf(b, "\t%s := %s%s{%s}\n", in.Name, amp, h.typeStr(t), strings.Join(fs, ", "))
			callArgs = append(callArgs, in.Name)
		case "array":
			at := in.Type.Underlying().(*types.Array)
			var es []string
			for i := range v {
				lit, ok := h.scalarLit(at.Elem(), v[i])
				if !ok {
					return "", false, "cannot render array element"
				}
				es = append(es, lit)
			}
			fmt.Fprintf(b, "\t%s := %s{%s}\n", in.Name, h.typeStr(in.Type), strings.Join(es, ", "))
			callArgs = append(callArgs, in.Name)
		case "reader":
			n, ok := clampLen(v[0], 1<<16)
			if !ok {
				return "", false, "bad stream length"
			}
			lit, ok := bytesLit(v[1:], int(min64(n, streamCells)))
			if !ok {
				return "", false, "bad stream bytes"
			}
			fmt.Fprintf(b, "\t%s := &govcReader{data: make([]byte, %d), chunks: []int{%s}}\n\tcopy(%s.data, %s)\n", in.Name, n, chunkList, in.Name, lit)
			callArgs = append(callArgs, in.Name)
			post = append(post, fmt.Sprintf("\tfmt.Printf(\"GOVC-CONSUMED %s %%d\\n\", %s.pos)\n", in.Name, in.Name))
		case "writer":
			fmt.Fprintf(b, "\t%s := &govcWriter{}\n", in.Name)
			callArgs = append(callArgs, in.Name)
			post = append(post, fmt.Sprintf("\tfmt.Printf(\"GOVC-WRITTEN %s %%x\\n\", %s.buf)\n", in.Name, in.Name))
		}
	}
	sig := fn.Signature
	call := ""
	args := callArgs
	if sig.Recv() != nil {
		call = callArgs[0] + "." + fn.Name()
		args = callArgs[1:]
	} else {
		call = fn.Name()
	}
	var res []string
	for i := 0; i < sig.Results().Len(); i++ {
		res = append(res, fmt.Sprintf("r%d", i))
	}
	if len(res) > 0 {
		fmt.Fprintf(b, "\t%s := %s(%s)\n", strings.Join(res, ", "), call, strings.Join(args, ", "))
	} else {
		fmt.Fprintf(b, "\t%s(%s)\n", call, strings.Join(args, ", "))
	}
	for i := 0; i < sig.Results().Len(); i++ {
		t := sig.Results().At(i).Type()
		if t.String() == "error" {
			fmt.Fprintf(b, "\tfmt.Printf(\"GOVC-RESULT %d errnil=%%v (%%v)\\n\", r%d == nil, r%d)\n", i, i, i)
		} else {
			fmt.Fprintf(b, "\tfmt.Printf(\"GOVC-RESULT %d %%v\\n\", r%d)\n", i, i)
		}
	}
	for _, p := range post {
		b.WriteString(p)
	}
	var sb strings.Builder
	fmt.Fprintf(&sb, "package %s\n\nimport (\n", pkg.Name())
	var imps []string
	for i := range h.imports {
		imps = append(imps, i)
	}
	sort.Strings(imps)
	for _, i := range imps {
		fmt.Fprintf(&sb, "\t%q\n", i)
	}
	sb.WriteString(")\n" + harnessPrelude + "\nvar _ = io.EOF\n\nfunc TestGovcReplay(t *testing.T) {\n\tdefer func() {\n\t\tif e := recover(); e != nil {\n\t\t\tfmt.Printf(\"GOVC-PANIC %v\\n\", e)\n\t\t}\n\t}()\n")
	sb.Write(h.body.Bytes())
	sb.WriteString("}\n")
	return sb.String(), true, ""
}

func min64(a, b int64) int64 {
	if a < b {
		return a
	}
	return b
}

var panicKinds = map[string]bool{"index": true, "slice-bounds": true, "make-nonneg": true, "panic": true, "nil-deref": true,
	"nil-invoke": true, "nil-func": true, "div-zero": true, "shift-neg": true, "type-assert": true, "binary-len": true,
	"slice-to-array": true, "call-panics": true, "reflect": true}

// runHarness executes the generated test against the repository through an overlay.
func runHarness(repo string, fn *ssa.Function, src string) (string, error) {
	dir, err := os.MkdirTemp("/var/tmp", "govc-replay-")
	if err != nil {
		return "", err
	}
	defer os.RemoveAll(dir)
	rel := strings.TrimPrefix(fn.Pkg.Pkg.Path(), modulePath)
	pkgDir := filepath.Join(repo, rel)
	testFile := filepath.Join(dir, "govc_replay_test.go")
	os.WriteFile(testFile, []byte(src), 0o644)
	ov := map[string]map[string]string{"Replace": {filepath.Join(pkgDir, "govc_replay_test.go"): testFile}}
	ovData, _ := json.Marshal(ov)
	ovFile := filepath.Join(dir, "overlay.json")
	os.WriteFile(ovFile, ovData, 0o644)
	cmd := exec.Command("bash", "-c", fmt.Sprintf("ulimit -v 8000000; cd %s && go test -overlay %s -vet=off -count=1 -timeout 60s -v -run '^TestGovcReplay$' .", pkgDir, ovFile))
	cmd.Env = append(os.Environ(), "GOFLAGS=-mod=mod", "GOPROXY=off", "GOSUMDB=off", "GOTOOLCHAIN=local", "GOCACHE="+filepath.Join(dir, "gocache"))
	if gc := os.Getenv("GOCACHE"); gc != "" {
		cmd.Env = append(cmd.Env, "GOCACHE="+gc)
	} else if home, _ := os.UserHomeDir(); home != "" {
		cmd.Env = append(cmd.Env, "GOCACHE="+filepath.Join(home, ".cache", "go-build"))
	}
	out, err := cmd.CombinedOutput()
	return string(out), err
}

// writeReplay writes the replay file of a failed obligation and reports
// whether the counterexample was confirmed against the real code.
func writeReplay(eng *Engine, repo, path, prop string, o *Obligation) bool {
	rec := map[string]interface{}{
		"property":               prop,
		"obligation":             o.Name,
		"kind":                   o.Kind,
		"note":                   o.Note,
		"status":                 o.Status,
		"solver":                 o.Solver,
		"solver_output":          truncate(o.Output, 20000),
		"goal_smt":               truncate(o.Goal, 4000),
		"confirmed_on_real_code": false,
	}
	confirmed := false
	func() {
		if o.Status != "refuted" || o.Replay == nil {
			rec["replay"] = "no model (solver answered " + o.Status + ")"
			return
		}
		rd := o.Replay.data()
		if rd == nil || !rd.ok {
			why := "no replay harness"
			if rd != nil {
				why = "no generic harness for " + rd.why
			}
			rec["replay"] = why
			return
		}
		vals := parseGetValue(o.Output)
		if vals == nil {
			rec["replay"] = "could not parse the model values"
			return
		}
		src, ok, why := buildHarness(rd, vals)
		if !ok {
			rec["replay"] = "harness generation failed: " + why
			return
		}
		rec["replay_test_source"] = src
		out, _ := runHarness(repo, rd.fn, src)
		rec["replay_output"] = truncate(out, 8000)
		panicked := strings.Contains(out, "GOVC-PANIC")
		switch {
		case panicKinds[o.Kind]:
			confirmed = panicked
			rec["replay_verdict"] = fmt.Sprintf("panic-freedom obligation; real call panicked: %v", panicked)
		default:
			// compare the model's predicted outputs with the observed ones
			match, detail := comparePrediction(o, rd, out)
			confirmed = match && !panicked
			rec["replay_verdict"] = detail
		}
	}()
	rec["confirmed_on_real_code"] = confirmed
	data, _ := json.MarshalIndent(rec, "", " ")
	os.WriteFile(path, data, 0o644)
	return confirmed
}

// comparePrediction re-queries the solver for the predicted outputs and
// compares them with the harness output.
func comparePrediction(o *Obligation, rd *replayData, out string) (bool, string) {
	if len(o.Replay.outputs) == 0 {
		return false, "no predicted outputs recorded for this obligation kind"
	}
	// ask the solver for the predicted outputs in the same model: re-run with
	// the inputs pinned to the model values
	vals := parseGetValue(o.Output)
	in := o.Replay.getValuesAt(o.Prefix)
	var pins []string
	for i, t := range in {
		if i < len(vals) {
			pins = append(pins, fmt.Sprintf("(assert (= %s %s))", t, vals[i]))
		}
	}
	var want []string
	for _, op := range o.Replay.outputs {
		want = append(want, op.Terms...)
	}
	script := o.script(nil)
	k := strings.LastIndex(script, "(check-sat)")
	script = script[:k] + strings.Join(pins, "\n") + "\n(check-sat)\n(get-value (" + strings.Join(want, " ") + "))\n"
	f, _ := os.CreateTemp("/var/tmp", "govc-pred-*.smt2")
	f.WriteString(script)
	f.Close()
	defer os.Remove(f.Name())
	r := race(f.Name(), 20, 0, solvers[:2])
	if r.status != "sat" {
		return false, "could not re-derive the predicted outputs (" + r.status + ")"
	}
	pv := parseGetValue(r.out)
	if pv == nil {
		return false, "could not parse predicted outputs"
	}
	idx := 0
	var details []string
	all := true
	for _, op := range o.Replay.outputs {
		v := pv[idx]
		idx += len(op.Terms)
		i := strings.TrimPrefix(op.Name, "r")
		var line string
		for _, l := range strings.Split(out, "\n") {
			if strings.HasPrefix(l, "GOVC-RESULT "+i+" ") {
				line = strings.TrimPrefix(l, "GOVC-RESULT "+i+" ")
			}
		}
		switch op.Kind {
		case "errnil":
			b, _, _ := modelInt(v)
			predNil := b != nil && b.Sign() == 0
			got := strings.HasPrefix(line, "errnil=true")
			details = append(details, fmt.Sprintf("result %s: predicted err==nil %v, observed %q", i, predNil, line))
			if predNil != got || line == "" {
				all = false
			}
		case "scalar":
			var pred string
			switch {
			case isBool(op.Type):
				pred = v
			case isInteger(op.Type):
				b, w, ok := modelInt(v)
				if ok {
					if isSigned(op.Type) {
						b = signedVal(b, w)
					}
					pred = b.String()
				}
			default:
				pred = "?"
			}
			details = append(details, fmt.Sprintf("result %s: predicted %s, observed %q", i, pred, line))
			if pred != line {
				all = false
			}
		}
	}
	verdict := "model outputs reproduced by the real code: counterexample confirmed"
	if !all {
		verdict = "real code did not reproduce the model's outputs"
	}
	return all, verdict + "; " + strings.Join(details, "; ")
}
